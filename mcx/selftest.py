"""Self-test of the reference model against independent oracles (ctypes, struct, eval).  Run by MANIFEST.setup_cmd.

It does not touch dissect.cstruct: it keeps the *model* honest."""
from __future__ import annotations

import ctypes
import itertools
import struct
import sys

from .refmodel import expr as rexpr
from .refmodel.codec import decode, encode, leb_encode
from .refmodel.types import CHAR, FLOATS, INTS, Cfg, TArr, TField, TFloat, TInt, TStruct, layout

CT = {
    "int8": ctypes.c_int8, "uint8": ctypes.c_uint8, "int16": ctypes.c_int16, "uint16": ctypes.c_uint16,
    "int32": ctypes.c_int32, "uint32": ctypes.c_uint32, "int64": ctypes.c_int64, "uint64": ctypes.c_uint64,
    "float": ctypes.c_float, "double": ctypes.c_double, "char": ctypes.c_char,
}


def to_ctypes(t, packed: bool, cache: dict):
    if isinstance(t, (TInt, TFloat)) or t is CHAR:
        return CT.get(t.name)
    if isinstance(t, TArr):
        e = to_ctypes(t.elem, packed, cache)
        return None if e is None or not isinstance(t.count, int) else e * t.count
    if isinstance(t, TStruct):
        key = (t, packed)
        if key in cache:
            return cache[key]
        fields = []
        for f in t.fields:
            ct = to_ctypes(f.type, packed, cache)
            if ct is None or f.bits:
                return None
            fields.append((f.name, ct))
        ns = {"_fields_": fields}
        if packed:
            ns["_pack_"] = 1
        cls = type(t.name, (ctypes.Union if t.union else ctypes.Structure,), ns)
        cache[key] = cls
        return cls
    return None


def check_layout() -> int:
    n = 0
    inner = TStruct("in_t", (TField("p", INTS["uint8"]), TField("q", INTS["uint32"])))
    un = TStruct("un_t", (TField("w", INTS["uint16"]), TField("b", TArr(INTS["uint8"], 3))), union=True)
    atoms = [INTS[k] for k in ("int8", "uint16", "int32", "uint64")] + [FLOATS["float"], FLOATS["double"], CHAR, inner, un,
             TArr(INTS["uint16"], 3), TArr(inner, 2), TArr(TArr(INTS["uint8"], 3), 2)]
    for m in (1, 2, 3):
        for seq in itertools.product(atoms, repeat=m):
            st = TStruct("S", tuple(TField(f"f{i}", t) for i, t in enumerate(seq)))
            for align in (False, True):
                cache: dict = {}
                ct = to_ctypes(st, not align, cache)
                offs, size, al = layout(st, Cfg(align=align))
                assert ctypes.sizeof(ct) == size, (st, align, ctypes.sizeof(ct), size)
                assert (ctypes.alignment(ct) if align else 1) == (al if align else 1), (st, align)
                for f, o in zip(st.fields, offs):
                    assert getattr(ct, f.name).offset == o, (st, align, f.name, getattr(ct, f.name).offset, o)
                n += 1
    return n


def check_codecs() -> int:
    n = 0
    fmt = {"int8": "b", "uint8": "B", "int16": "h", "uint16": "H", "int32": "i", "uint32": "I", "int64": "q", "uint64": "Q"}
    for name, ch in fmt.items():
        t = INTS[name]
        for e in "<>":
            cfg = Cfg(endian=e)
            for pat in (bytes(range(1, t.size + 1)), b"\xff" * t.size, b"\x80" + b"\x00" * (t.size - 1), b"\x00" * t.size):
                v, _ = decode(t, pat, 0, cfg)
                assert v == struct.unpack(e + ch, pat)[0]
                assert encode(t, v, cfg) == pat
                n += 1
    for v, enc in ((0, b"\x00"), (127, b"\x7f"), (128, b"\x80\x01"), (624485, b"\xe5\x8e\x26")):
        assert leb_encode(v, False) == enc
    for v, enc in ((-123456, b"\xc0\xbb\x78"), (-1, b"\x7f"), (63, b"\x3f"), (64, b"\xc0\x00"), (-64, b"\x40"), (-65, b"\xbf\x7f")):
        assert leb_encode(v, True) == enc
        n += 1
    return n


def check_expr() -> int:
    n = 0
    env = {"a": 3, "b": 5, "K": 6}
    atoms = ["1", "7", "a", "0x1F", "010"]
    for l, o1, m, o2, r in itertools.product(atoms, rexpr.BIN, atoms, rexpr.BIN, atoms):
        for toks in ([l, o1, m, o2, r], ["-", l, o1, "~", m, o2, r], [l, o1, "(", m, o2, r, ")"]):
            try:
                v = rexpr.ref_eval(toks, env)
            except rexpr.OutOfDomain:
                continue
            py = rexpr.to_python(toks, env)
            assert v == eval(py, {"__builtins__": {}}, dict(env)), (toks, v, py)
            n += 1
    return n


def main() -> int:
    a = check_layout()
    b = check_codecs()
    c = check_expr()
    print(f"selftest ok: layout vs ctypes {a} definitions, codecs {b} cases, expressions vs eval {c}")
    return 0


if __name__ == "__main__":
    sys.exit(main())
