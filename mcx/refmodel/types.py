"""Reference model, part 1: type descriptors, sizes, alignments and structure layout.

Written from the *statements* of the properties (C04, C06, C11) and from the public meaning of the C type
names - it does not import dissect.cstruct.  Everything here is deliberately boring.
"""
from __future__ import annotations

from dataclasses import dataclass, field as dfield
from typing import Any


# ---------------------------------------------------------------------------------------------- descriptors
@dataclass(frozen=True)
class TInt:
    name: str
    size: int
    signed: bool
    align: int


@dataclass(frozen=True)
class TFloat:
    name: str
    size: int
    fmt: str


@dataclass(frozen=True)
class TChar:
    name: str = "char"


@dataclass(frozen=True)
class TWchar:
    name: str = "wchar"


@dataclass(frozen=True)
class TLeb:
    name: str
    signed: bool


@dataclass(frozen=True)
class TVoid:
    name: str = "void"


@dataclass(frozen=True)
class TEnum:
    name: str
    base: TInt
    members: tuple  # ((name, value), ...)
    flag: bool = False


@dataclass(frozen=True)
class TPtr:
    target: Any


NULLTERM = None
EOF = "EOF"


@dataclass(frozen=True)
class TArr:
    elem: Any
    count: Any  # int | str (expression text) | None (null terminated) | "EOF"


@dataclass(frozen=True)
class TField:
    name: str | None  # None = anonymous member (struct/union folded into the parent)
    type: Any
    bits: int | None = None


@dataclass(frozen=True)
class TStruct:
    name: str
    fields: tuple
    union: bool = False


INTS: dict[str, TInt] = {}
for _n, _s, _sg, _al in [
    ("int8", 1, True, 1), ("uint8", 1, False, 1), ("int16", 2, True, 2), ("uint16", 2, False, 2),
    ("int32", 4, True, 4), ("uint32", 4, False, 4), ("int64", 8, True, 8), ("uint64", 8, False, 8),
    ("int24", 3, True, 4), ("uint24", 3, False, 4), ("int48", 6, True, 8), ("uint48", 6, False, 8),
    ("int128", 16, True, 16), ("uint128", 16, False, 16),
]:
    INTS[_n] = TInt(_n, _s, _sg, _al)
FLOATS = {"float16": TFloat("float16", 2, "e"), "float": TFloat("float", 4, "f"), "double": TFloat("double", 8, "d")}
CHAR = TChar()
WCHAR = TWchar()
ULEB = TLeb("uleb128", False)
ILEB = TLeb("ileb128", True)
VOID = TVoid()

SCALARS: dict[str, Any] = {**INTS, **FLOATS, "char": CHAR, "wchar": WCHAR, "uleb128": ULEB, "ileb128": ILEB, "void": VOID}

# Synonym groups: every C / Windows / GNU / IDA spelling -> the scalar it denotes (LLP64: long = 32 bit), written
# from the public meaning of the names.  "unsigned char" is left out of the strict table (see DESIGN 7.13).
SYNONYMS: dict[str, str] = {
    "signed char": "int8", "short": "int16", "signed short": "int16", "unsigned short": "uint16",
    "int": "int32", "signed int": "int32", "unsigned int": "uint32", "long": "int32", "signed long": "int32",
    "unsigned long": "uint32", "long long": "int64", "signed long long": "int64", "unsigned long long": "uint64",
    "BYTE": "uint8", "CHAR": "char", "SHORT": "int16", "WORD": "uint16", "DWORD": "uint32", "LONG": "int32",
    "LONG32": "int32", "LONG64": "int64", "LONGLONG": "int64", "QWORD": "uint64", "OWORD": "uint128", "WCHAR": "wchar",
    "UCHAR": "uint8", "USHORT": "uint16", "ULONG": "uint32", "ULONG64": "uint64", "ULONGLONG": "uint64",
    "INT": "int32", "INT8": "int8", "INT16": "int16", "INT32": "int32", "INT64": "int64", "INT128": "int128",
    "UINT": "uint32", "UINT8": "uint8", "UINT16": "uint16", "UINT32": "uint32", "UINT64": "uint64", "UINT128": "uint128",
    "__int8": "int8", "__int16": "int16", "__int32": "int32", "__int64": "int64", "__int128": "int128",
    "unsigned __int8": "uint8", "unsigned __int16": "uint16", "unsigned __int32": "uint32",
    "unsigned __int64": "uint64", "unsigned __int128": "uint128",
    "wchar_t": "wchar",
    "int8_t": "int8", "int16_t": "int16", "int32_t": "int32", "int64_t": "int64", "int128_t": "int128",
    "uint8_t": "uint8", "uint16_t": "uint16", "uint32_t": "uint32", "uint64_t": "uint64", "uint128_t": "uint128",
    "_BYTE": "uint8", "_WORD": "uint16", "_DWORD": "uint32", "_QWORD": "uint64", "_OWORD": "uint128",
    "u1": "uint8", "u2": "uint16", "u4": "uint32", "u8": "uint64", "u16": "uint128",
    "__u8": "uint8", "__u16": "uint16", "__u32": "uint32", "__u64": "uint64",
    "uchar": "uint8", "ushort": "uint16", "uint": "uint32", "ulong": "uint32",
}


@dataclass
class Cfg:
    endian: str = "<"  # '<' | '>' | '!'
    align: bool = False
    ptr: TInt = INTS["uint64"]
    consts: dict = dfield(default_factory=dict)

    @property
    def bo(self) -> str:
        return "little" if self.endian == "<" else "big"

    @property
    def e(self) -> str:
        return "<" if self.endian == "<" else ">"


class RefEOF(Exception):
    """A data-carrying byte is missing."""


class RefReject(Exception):
    """The definition must be rejected at load time."""


class RefUndef(Exception):
    """Outside the domain pinned down by the properties (the oracle is silent)."""


# ---------------------------------------------------------------------------------------------- size / alignment
def sizeof(t, cfg: Cfg):
    if isinstance(t, (TInt, TFloat)):
        return t.size
    if isinstance(t, TChar):
        return 1
    if isinstance(t, TWchar):
        return 2
    if isinstance(t, TLeb):
        return None
    if isinstance(t, TVoid):
        return 0
    if isinstance(t, TEnum):
        return t.base.size
    if isinstance(t, TPtr):
        return cfg.ptr.size
    if isinstance(t, TArr):
        es = sizeof(t.elem, cfg)
        if isinstance(t.count, int) and not isinstance(t.count, bool) and es is not None:
            return es * max(0, t.count)
        return None
    if isinstance(t, TStruct):
        return layout(t, cfg)[1]
    raise TypeError(t)


def alignof(t, cfg: Cfg) -> int:
    if isinstance(t, TInt):
        return t.align
    if isinstance(t, TFloat):
        return t.size
    if isinstance(t, TChar):
        return 1
    if isinstance(t, TWchar):
        return 2
    if isinstance(t, (TLeb, TVoid)):
        return 1
    if isinstance(t, TEnum):
        return t.base.align
    if isinstance(t, TPtr):
        return cfg.ptr.align
    if isinstance(t, TArr):
        return alignof(t.elem, cfg)
    if isinstance(t, TStruct):
        return layout(t, cfg)[2]
    raise TypeError(t)


def storage(t):
    return t.base if isinstance(t, TEnum) else t


def is_dynamic(t, cfg: Cfg) -> bool:
    return sizeof(t, cfg) is None


_layout_cache: dict = {}


def layout(st: TStruct, cfg: Cfg):
    """-> (offsets, size | None, alignment).

    offsets[i] is the byte offset of field i (None once a dynamically sized field precedes it); for bit-fields it is
    ("bits", unit_offset | None, bits_used_before, unit_size, first_in_unit).
    """
    key = (st, cfg.align, cfg.ptr)
    hit = _layout_cache.get(key)
    if hit is not None:
        if isinstance(hit, Exception):
            raise hit
        return hit
    try:
        res = _layout(st, cfg)
    except RefReject as e:
        _layout_cache[key] = e
        raise
    if len(_layout_cache) > 20000:
        _layout_cache.clear()
    _layout_cache[key] = res
    return res


def _layout(st: TStruct, cfg: Cfg):
    offs: list = []
    al = 1
    if st.union:
        size = 0
        for f in st.fields:
            s = sizeof(f.type, cfg)
            size = None if (size is None or s is None) else max(size, s)
            al = max(al, alignof(f.type, cfg))
            offs.append(0)
        if cfg.align and size is not None:
            size += -size % al
        return offs, size, al
    off = 0
    unit_t = None
    unit_left = 0
    unit_off = None
    used = 0
    for f in st.fields:
        a = alignof(f.type, cfg)
        al = max(al, a)
        if f.bits:
            stt = storage(f.type)
            ssz = sizeof(stt, cfg)
            if ssz is None:
                raise RefReject("bit-field of variable-size type")
            first = False
            if unit_t is None or unit_t != stt or unit_left == 0:
                if cfg.align and off is not None:
                    off += -off % a
                unit_t = stt
                unit_left = ssz * 8
                unit_off = off
                used = 0
                first = True
                if off is not None:
                    off += ssz
            if f.bits > unit_left:
                raise RefReject("straddle")
            offs.append(("bits", unit_off, used, ssz, first))
            used += f.bits
            unit_left -= f.bits
        else:
            unit_t = None
            unit_left = 0
            if cfg.align and off is not None:
                off += -off % a
            offs.append(off)
            if off is not None:
                s = sizeof(f.type, cfg)
                off = None if s is None else off + s
    if cfg.align and off is not None:
        off += -off % al
    return offs, off, al


# ---------------------------------------------------------------------------------------------- rendering to text
def tname(t) -> str:
    if isinstance(t, (TInt, TFloat, TChar, TWchar, TLeb, TVoid, TEnum, TStruct)):
        return t.name
    raise TypeError(t)


def _is_anon(t) -> bool:
    return isinstance(t, TStruct) and t.name.startswith("__anon")


def render_body(st: TStruct) -> str:
    return " ".join(render_field(f) for f in st.fields)


def render_field(f: TField) -> str:
    t = f.type
    stars = ""
    dims = []
    while isinstance(t, TArr):
        dims.append("" if t.count is None else str(t.count))
        t = t.elem
    while isinstance(t, TPtr):
        stars += "*"
        t = t.target
    if _is_anon(t):
        kw = "union" if t.union else "struct"
        head = f"{kw} {{ {render_body(t)} }}"
        if f.name is None:
            return head + ";"
        s = f"{head} {stars}{f.name}"
    else:
        s = f"{tname(t)} {stars}{f.name}"
    if f.bits:
        s += f" : {f.bits}"
    for d in dims:
        s += f"[{d}]"
    return s + ";"


def collect(t, out: list) -> None:
    """Collect named enum/struct types in dependency order."""
    if isinstance(t, TArr):
        collect(t.elem, out)
    elif isinstance(t, TPtr):
        collect(t.target, out)
    elif isinstance(t, TEnum):
        if t not in out:
            out.append(t)
    elif isinstance(t, TStruct):
        for f in t.fields:
            collect(f.type, out)
        if not _is_anon(t) and t not in out:
            out.append(t)


def render_enum(t: TEnum) -> str:
    kw = "flag" if t.flag else "enum"
    return f"{kw} {t.name} : {t.base.name} {{ " + ", ".join(f"{k} = {v}" for k, v in t.members) + " };"


def render(st: TStruct, consts: dict | None = None) -> str:
    out: list = []
    collect(st, out)
    parts = [f"#define {k} {v}" for k, v in (consts or {}).items()]
    for t in out:
        if isinstance(t, TEnum):
            parts.append(render_enum(t))
        else:
            kw = "union" if t.union else "struct"
            parts.append(f"{kw} {t.name} {{ {render_body(t)} }};")
    return "\n".join(parts)
