"""Reference model, part 3: decoding / encoding of values (C01, C02, C05, C06, C07, C11) with a data-bit mask.

decode(t, data, pos, cfg)           -> (plain value, new position)
decode_with_mask(t, data, cfg)      -> (plain value, consumed, mask)   mask[i] has a 1 for every bit that belongs to a field
encode(t, value, cfg, base=0)       -> bytes (padding and unassigned bit-field bits are filled with JUNK)

Plain values: int, float, bytes (char / char arrays), str (wchar / wchar arrays), list, dict (struct, anonymous members
folded), None (void).  Only int.from_bytes/to_bytes, struct (floats) and the UTF-16 codecs are used.
"""
from __future__ import annotations

import struct as pystruct

from . import expr as rexpr
from .types import (
    EOF,
    Cfg,
    RefEOF,
    RefUndef,
    TArr,
    TChar,
    TEnum,
    TField,
    TFloat,
    TInt,
    TLeb,
    TPtr,
    TStruct,
    TVoid,
    TWchar,
    alignof,
    layout,
    sizeof,
    storage,
)

JUNK = 0xA5


class RefInvalid(Exception):
    """The bytes are not a valid encoding (e.g. a lone UTF-16 surrogate): the implementation must not return."""


class RawUnion:
    """Value of a union used for *encoding*: its raw bytes."""

    def __init__(self, raw: bytes):
        self.raw = bytes(raw)

    def __repr__(self) -> str:
        return f"RawUnion({self.raw.hex()})"


def _u16(cfg: Cfg) -> str:
    return "utf-16-le" if cfg.endian == "<" else "utf-16-be"


def is_zero(v) -> bool:
    if isinstance(v, dict):
        return all(is_zero(x) for x in v.values())
    if isinstance(v, list):
        return len(v) == 0 or all(is_zero(x) for x in v)
    if isinstance(v, bytes):
        return all(c == 0 for c in v)
    if isinstance(v, str):
        return all(c == "\x00" for c in v)
    if v is None:
        return True
    return v == 0


def eval_count(text: str, ctx: dict, cfg: Cfg) -> int:
    env = {k: int(v) for k, v in ctx.items() if isinstance(v, int) and not isinstance(v, bool)}
    return rexpr.evaluate(text, env, cfg.consts)


class Decoder:
    def __init__(self, data: bytes, cfg: Cfg, record: bool = False):
        self.data = data
        self.cfg = cfg
        self.rec = bytearray(len(data)) if record else None
        self.units: list = []  # (position, size) of every bit-field storage unit read
        self.noncanonical = False  # saw a NaN float or a non-minimal LEB128 (outside C02's byte-fidelity claim)

    def need(self, pos: int, n: int, rec: bool = True) -> bytes:
        if pos + n > len(self.data):
            raise RefEOF()
        if self.rec is not None and rec:
            for i in range(pos, pos + n):
                self.rec[i] = 0xFF
        return self.data[pos : pos + n]

    def decode(self, t, pos: int, ctx: dict | None = None):
        cfg = self.cfg
        ctx = ctx if ctx is not None else {}
        if isinstance(t, TInt):
            b = self.need(pos, t.size)
            return int.from_bytes(b, cfg.bo, signed=t.signed), pos + t.size
        if isinstance(t, TFloat):
            b = self.need(pos, t.size)
            fv = pystruct.unpack(cfg.e + t.fmt, b)[0]
            if fv != fv:
                self.noncanonical = True
            return fv, pos + t.size
        if isinstance(t, TChar):
            return bytes(self.need(pos, 1)), pos + 1
        if isinstance(t, TWchar):
            b = self.need(pos, 2)
            try:
                return bytes(b).decode(_u16(cfg)), pos + 2
            except UnicodeDecodeError:
                raise RefInvalid() from None
        if isinstance(t, TLeb):
            res = 0
            sh = 0
            start = pos
            while True:
                b = self.need(pos, 1)[0]
                pos += 1
                res |= (b & 0x7F) << sh
                sh += 7
                if not b & 0x80:
                    break
            if t.signed and b & 0x40:
                res -= 1 << sh
            if bytes(self.data[start:pos]) != leb_encode(res, t.signed):
                self.noncanonical = True
            return res, pos
        if isinstance(t, TVoid):
            return None, pos
        if isinstance(t, TEnum):
            return self.decode(t.base, pos, ctx)
        if isinstance(t, TPtr):
            b = self.need(pos, cfg.ptr.size)
            return int.from_bytes(b, cfg.bo, signed=False), pos + cfg.ptr.size
        if isinstance(t, TArr):
            return self.decode_array(t, pos, ctx)
        if isinstance(t, TStruct):
            return self.decode_struct(t, pos)
        raise TypeError(t)

    @staticmethod
    def _join(elem, items):
        if isinstance(elem, TChar):
            return b"".join(items)
        if isinstance(elem, TWchar):
            return "".join(items)
        return items

    def _wdecode(self, b: bytes) -> str:
        try:
            return bytes(b).decode(_u16(self.cfg))
        except UnicodeDecodeError:
            raise RefInvalid() from None

    def decode_array(self, t: TArr, pos: int, ctx: dict):
        e = t.elem
        data = self.data
        cfg = self.cfg
        if t.count is None:  # null terminated: stops at and consumes the first zero element
            if isinstance(e, TWchar):
                start = pos
                while True:
                    b = self.need(pos, 2)
                    pos += 2
                    if b == b"\x00\x00":
                        break
                return self._wdecode(data[start : pos - 2]), pos
            items = []
            while True:
                v, pos = self.decode(e, pos, ctx)
                if is_zero(v):
                    break
                items.append(v)
            return self._join(e, items), pos
        if t.count == EOF:
            es = sizeof(e, cfg)
            if isinstance(e, TWchar):
                n = len(data) - pos
                if n % 2:
                    raise RefUndef()
                if n:
                    self.need(pos, n)
                return self._wdecode(data[pos:]), len(data)
            if es is not None and es and (len(data) - pos) % es:
                raise RefUndef()
            if es == 0:
                raise RefUndef()
            items = []
            while pos < len(data):
                v, npos = self.decode(e, pos, ctx)
                if npos == pos:
                    raise RefUndef()  # zero-sized elements up to the end of the stream: no extent is defined
                pos = npos
                items.append(v)
            return self._join(e, items), pos
        n = t.count if isinstance(t.count, int) else eval_count(t.count, ctx, cfg)
        n = max(0, n)
        if isinstance(e, TWchar):
            b = self.need(pos, 2 * n)
            return self._wdecode(b), pos + 2 * n
        items = []
        for _ in range(n):
            v, pos = self.decode(e, pos, ctx)
            items.append(v)
        return self._join(e, items), pos

    def decode_struct(self, st: TStruct, pos: int):
        cfg = self.cfg
        offs, size, al = layout(st, cfg)
        start = pos
        res: dict = {}
        if st.union:
            end = pos
            if size is not None:
                self.need(pos, 0)
            for f in st.fields:
                v, p = self.decode(f.type, start, res)
                _put(res, f, v)
                end = max(end, p)
            return res, (start + size if size is not None else end)
        cur = pos
        cur_unit = 0
        ucur = 0
        for f, o in zip(st.fields, offs):
            if f.bits:
                _, uoff, used, ssz, first = o
                if first:
                    if uoff is not None:
                        cur = start + uoff
                    elif cfg.align:
                        cur += -cur % alignof(f.type, cfg)
                    ub = self.need(cur, ssz, rec=False)
                    cur_unit = int.from_bytes(ub, cfg.bo)
                    ucur = cur
                    self.units.append((cur, ssz))
                    cur += ssz
                sh = used if cfg.endian == "<" else ssz * 8 - used - f.bits
                v = (cur_unit >> sh) & ((1 << f.bits) - 1)
                if self.rec is not None:
                    m = ((1 << f.bits) - 1) << sh
                    mb = m.to_bytes(ssz, cfg.bo)
                    for i in range(ssz):
                        self.rec[ucur + i] |= mb[i]
                _put(res, f, v)
                continue
            if o is not None:
                cur = start + o
            elif cfg.align:
                cur += -cur % alignof(f.type, cfg)
            v, cur = self.decode(f.type, cur, res)
            _put(res, f, v)
        if size is not None:
            cur = start + size
        elif cfg.align:
            cur += -cur % al
        return res, cur


def _put(res: dict, f: TField, v) -> None:
    if f.name is None and isinstance(v, dict):
        res.update(v)  # anonymous member: folded (flat view)
    else:
        res[f.name] = v


def decode(t, data: bytes, pos: int, cfg: Cfg, ctx: dict | None = None):
    return Decoder(data, cfg).decode(t, pos, ctx)


def decode_with_mask(t, data: bytes, cfg: Cfg, pos: int = 0, info: dict | None = None):
    d = Decoder(data, cfg, record=True)
    v, end = d.decode(t, pos)
    if info is not None:
        info["noncanonical"] = d.noncanonical
        info["units"] = list(d.units)
    return v, end, bytes(d.rec[pos:end])


# ---------------------------------------------------------------------------------------------- encoding
def leb_encode(v: int, signed: bool) -> bytes:
    """Textbook minimal LEB128."""
    if not signed and v < 0:
        raise ValueError("negative")
    out = bytearray()
    while True:
        byte = v & 0x7F
        v >>= 7
        if signed:
            done = (v == 0 and not byte & 0x40) or (v == -1 and byte & 0x40)
        else:
            done = v == 0
        if done:
            out.append(byte)
            return bytes(out)
        out.append(byte | 0x80)


def zero_of(t, cfg: Cfg):
    """The type's zero value (what an unspecified field holds, what terminates a null-terminated array)."""
    if isinstance(t, (TInt, TLeb, TEnum, TPtr)):
        return 0
    if isinstance(t, TFloat):
        return 0.0
    if isinstance(t, TChar):
        return b"\x00"
    if isinstance(t, TWchar):
        return "\x00"
    if isinstance(t, TVoid):
        return None
    if isinstance(t, TArr):
        n = t.count if isinstance(t.count, int) else 0
        if isinstance(t.elem, TChar):
            return b"\x00" * n
        if isinstance(t.elem, TWchar):
            return "\x00" * n
        return [zero_of(t.elem, cfg) for _ in range(n)]
    if isinstance(t, TStruct):
        if t.union:
            return RawUnion(bytes(sizeof(t, cfg) or 0))
        res: dict = {}
        for f in t.fields:
            _put(res, f, 0 if f.bits else _plain_zero(f.type, cfg))
        return res
    raise TypeError(t)


def _plain_zero(t, cfg):
    z = zero_of(t, cfg)
    return z


def encode(t, v, cfg: Cfg, base: int = 0, ctx: dict | None = None) -> bytes:
    ctx = ctx if ctx is not None else {}
    if isinstance(t, TInt):
        return int(v).to_bytes(t.size, cfg.bo, signed=t.signed)
    if isinstance(t, TFloat):
        return pystruct.pack(cfg.e + t.fmt, v)
    if isinstance(t, TChar):
        assert isinstance(v, bytes) and len(v) == 1
        return v
    if isinstance(t, TWchar):
        b = v.encode(_u16(cfg))
        assert len(b) == 2
        return b
    if isinstance(t, TLeb):
        return leb_encode(int(v), t.signed)
    if isinstance(t, TVoid):
        return b""
    if isinstance(t, TEnum):
        return encode(t.base, v, cfg)
    if isinstance(t, TPtr):
        return int(v).to_bytes(cfg.ptr.size, cfg.bo, signed=False)
    if isinstance(t, TArr):
        e = t.elem
        if isinstance(e, TChar):
            body = bytes(v)
        elif isinstance(e, TWchar):
            body = v.encode(_u16(cfg))
        else:
            out = bytearray()
            for x in v:
                out += encode(e, x, cfg, base + len(out), ctx)
            body = bytes(out)
        if t.count is None:
            body += encode(e, zero_of(e, cfg), cfg, base + len(body), ctx) if not isinstance(e, (TChar, TWchar)) else (
                b"\x00" if isinstance(e, TChar) else b"\x00\x00"
            )
        return body
    if isinstance(t, TStruct):
        return encode_struct(t, v, cfg, base)
    raise TypeError(t)


def _junk_int(nbytes: int) -> int:
    return int.from_bytes(bytes([JUNK]) * nbytes, "little")


def encode_struct(st: TStruct, v, cfg: Cfg, base: int = 0) -> bytes:
    offs, size, al = layout(st, cfg)
    if st.union:
        if isinstance(v, RawUnion):
            raw = v.raw
        else:
            raise TypeError("union values are encoded from RawUnion")
        assert size is not None
        return (raw + bytes([JUNK]) * size)[:size]
    out = bytearray()

    def pad_to(n: int) -> None:
        if n > len(out):
            out.extend(bytes([JUNK]) * (n - len(out)))

    unit = 0
    unit_pos = 0
    unit_sz = 0
    ctx: dict = {}
    for f, o in zip(st.fields, offs):
        fv = _get(v, f)
        if f.bits:
            _, uoff, used, ssz, first = o
            if first:
                if uoff is not None:
                    pad_to(uoff)
                elif cfg.align:
                    pad_to(len(out) + (-(base + len(out)) % alignof(f.type, cfg)))
                unit = _junk_int(ssz) if cfg.bo == "little" else int.from_bytes(bytes([JUNK]) * ssz, "big")
                unit_pos = len(out)
                unit_sz = ssz
                out.extend(bytes(ssz))
            sh = used if cfg.endian == "<" else ssz * 8 - used - f.bits
            m = ((1 << f.bits) - 1) << sh
            assert 0 <= int(fv) < (1 << f.bits), (f, fv)
            unit = (unit & ~m) | (int(fv) << sh)
            out[unit_pos : unit_pos + unit_sz] = unit.to_bytes(unit_sz, cfg.bo)
            _put(ctx, f, fv)
            continue
        if o is not None:
            pad_to(o)
        elif cfg.align:
            pad_to(len(out) + (-(base + len(out)) % alignof(f.type, cfg)))
        out += encode(f.type, fv, cfg, base + len(out), ctx)
        _put(ctx, f, fv if not isinstance(fv, RawUnion) else {})
    if size is not None:
        pad_to(size)
    elif cfg.align:
        pad_to(len(out) + (-(base + len(out)) % al))
    return bytes(out)


def _get(v: dict, f: TField):
    if f.name is None and isinstance(f.type, TStruct):
        if f.type.union:
            return v.get(("anon", f.type.name)) or RawUnion(b"")
        sub = {}
        for g in f.type.fields:
            sub[g.name] = v[g.name] if g.name is not None else None
        return sub
    return v[f.name]
