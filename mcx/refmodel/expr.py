"""Reference model, part 2: C integer expressions (property C10), precedence climbing over unbounded ints."""
from __future__ import annotations

import re

BIN = ["*", "/", "%", "+", "-", "<<", ">>", "&", "^", "|"]
UN = ["-", "~"]
PREC = {"|": 0, "^": 1, "&": 2, "<<": 3, ">>": 3, "+": 4, "-": 4, "*": 5, "/": 5, "%": 5}

_TOKEN = re.compile(r"\s*(<<|>>|[*/%+\-&^|()~]|[0-9][0-9a-zA-Z]*|[A-Za-z_][A-Za-z0-9_]*)")


class OutOfDomain(Exception):
    """Division by zero, / or % on negative operands, negative or huge shift counts: the property is silent."""


class RefSyntax(Exception):
    pass


def tokenize(text: str) -> list[str]:
    pos = 0
    out = []
    text = text.rstrip(" \t")
    while pos < len(text):
        m = _TOKEN.match(text, pos)
        if not m:
            raise RefSyntax(text[pos:])
        out.append(m.group(1))
        pos = m.end()
    return out


def lit_value(tok: str) -> int:
    t = tok.rstrip("uUlL")
    if t[:2] in ("0x", "0X"):
        return int(t[2:], 16)
    if t[:2] in ("0b", "0B"):
        return int(t[2:], 2)
    if len(t) > 1 and t[0] == "0":
        return int(t, 8)
    return int(t)


def apply(op: str, a: int, b: int) -> int:
    if op in ("/", "%"):
        if a < 0 or b <= 0:
            raise OutOfDomain()
        return a // b if op == "/" else a % b
    if op in ("<<", ">>"):
        if b < 0 or b > 64:
            raise OutOfDomain()
        return a << b if op == "<<" else a >> b
    if op == "*":
        return a * b
    if op == "+":
        return a + b
    if op == "-":
        return a - b
    if op == "&":
        return a & b
    if op == "^":
        return a ^ b
    if op == "|":
        return a | b
    raise RefSyntax(op)


def ref_eval(tokens: list[str], env: dict, sizeof=None) -> int:
    """env: identifier -> int (context first, then constants, merged by the caller). sizeof: callable(name)->int."""
    pos = 0

    def peek():
        return tokens[pos] if pos < len(tokens) else None

    def nxt():
        nonlocal pos
        if pos >= len(tokens):
            raise RefSyntax("eof")
        pos += 1
        return tokens[pos - 1]

    def unary():
        t = nxt()
        if t == "(":
            v = expr(0)
            if nxt() != ")":
                raise RefSyntax(")")
            return v
        if t == "-":
            return -unary()
        if t == "~":
            return ~unary()
        if t == "sizeof":
            if nxt() != "(":
                raise RefSyntax("sizeof")
            name = nxt()
            if nxt() != ")":
                raise RefSyntax("sizeof")
            return sizeof(name) if sizeof else env["sizeof:" + name]
        if t[0].isdigit():
            return lit_value(t)
        if t in PREC or t in (")",):
            raise RefSyntax(t)
        return int(env[t])

    def expr(minp):
        left = unary()
        while peek() in PREC and PREC[peek()] >= minp:
            op = nxt()
            right = expr(PREC[op] + 1)
            left = apply(op, left, right)
        return left

    v = expr(0)
    if pos != len(tokens):
        raise RefSyntax("trailing")
    return v


def evaluate(text: str, ctx: dict | None = None, consts: dict | None = None, sizeof=None) -> int:
    env = dict(consts or {})
    env.update(ctx or {})
    return ref_eval(tokenize(text), env, sizeof)


def to_python(tokens: list[str], env: dict) -> str:
    """Translate a token list into a Python expression (for the independent cross-check against eval)."""
    out = []
    i = 0
    while i < len(tokens):
        t = tokens[i]
        if t == "sizeof":
            out.append(str(env["sizeof:" + tokens[i + 2]]))
            i += 4
            continue
        if t[0].isdigit():
            out.append(str(lit_value(t)))
        elif t == "/":
            out.append("//")
        else:
            out.append(t)
        i += 1
    return " ".join(out)
