"""Reference model, part: a tiny lexer for definition text (C13) that knows token boundaries, bracket interiors, #define lines and
#[...] config flags.  Written from C's notion of a token, not from the library's regexes."""
from __future__ import annotations

import re

_TOK = re.compile(
    r"""
    (?P<cmt>/\*.*?\*/|//[^\n]*)             # existing comments count as white space
  | (?P<define>\#define[^\n]*(?:\n|$))      # line-oriented: one token incl. its line break
  | (?P<flag>\#\[[^\]]*\])                   # config flag
  | (?P<bracket>\[[^\]]*\])                  # array brackets with their interior
  | (?P<word>[A-Za-z0-9_]+)
  | (?P<op><<|>>)
  | (?P<punct>[{};,*:=+\-<>|&()~/%^])
  | (?P<ws>\s+|/\*.*?\*/|//[^\n]*)        # white space and existing comments
    """,
    re.X | re.S,
)


def tokens(text: str):
    """-> list of (kind, start, end) for non-whitespace tokens."""
    out = []
    pos = 0
    while pos < len(text):
        m = _TOK.match(text, pos)
        if not m:
            raise ValueError(f"cannot lex at {text[pos:pos+20]!r}")
        if m.lastgroup not in ("ws", "cmt"):
            out.append((m.lastgroup, m.start(), m.end()))
        pos = m.end()
    return out


def boundaries(text: str):
    """Positions between two consecutive tokens where comments/whitespace may be inserted: the position right after each token
    (except after the last one, where the end of text is used too).  Interiors of brackets, #define lines and config flags are single tokens."""
    toks = tokens(text)
    out = []
    for i, (kind, s, e) in enumerate(toks):
        if kind == "define":
            # insert after the line (the token includes its line break)
            out.append(e)
        else:
            out.append(e)
    # also before the very first token
    if toks:
        out.insert(0, toks[0][1])
    return sorted(set(out))


def insert(text: str, pos: int, what: str) -> str:
    return text[:pos] + what + text[pos:]
