"""Known-findings file: read-only at run time.

/verif/known_findings.json = {"findings": [ {...}, ... ], "fixed": ["fixed: property=<id> <commit> <what failed>", ...]}

A finding entry: {"id", "property", "what", "match": {"kind": <exact violation kind> | "kind_prefix": ..., "features": {name: value | [values]}}}
It suppresses a violation only if the kind matches AND every listed feature of the violating case has the listed value -
signatures are deliberately narrow so that a different violation of the same property is still reported.
"fixed" entries are documentation only: they never suppress anything.
"""
from __future__ import annotations

import json
import os

PATH = os.path.join(os.path.dirname(os.path.dirname(os.path.abspath(__file__))), "known_findings.json")


def load() -> list[dict]:
    try:
        with open(PATH) as fh:
            return json.load(fh).get("findings", [])
    except FileNotFoundError:
        return []


def by_id(kf: list[dict], fid: str) -> dict:
    for f in kf:
        if f["id"] == fid:
            return f
    raise KeyError(fid)


def match(kf: list[dict], pid: str, v) -> dict | None:
    for f in kf:
        if pid not in ([f["property"]] if isinstance(f["property"], str) else f["property"]):
            continue
        m = f["match"]
        if "kind" in m and v.kind != m["kind"]:
            continue
        if "kind_prefix" in m and not v.kind.startswith(m["kind_prefix"]):
            continue
        if "kinds" in m and v.kind not in m["kinds"]:
            continue
        ok = True
        for k, want in m.get("features", {}).items():
            have = v.features.get(k)
            if isinstance(want, list):
                if have not in want:
                    ok = False
                    break
            elif have != want:
                ok = False
                break
        if ok:
            return f
    return None
