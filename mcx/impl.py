"""Access to the implementation under test (always the working tree of $VERIF_REPO, default /repo)."""
from __future__ import annotations

import enum as _enum
import os
import sys

REPO = os.path.realpath(os.environ.get("VERIF_REPO", "/repo"))
if sys.path[0] != REPO:
    sys.path.insert(0, REPO)
sys.dont_write_bytecode = True

import dissect.cstruct as _dc  # noqa: E402

_libfile = os.path.realpath(_dc.__file__)
assert _libfile.startswith(REPO + os.sep), f"dissect.cstruct imported from {_libfile}, expected under {REPO}"
LIBDIR = os.path.dirname(_libfile)

from dissect.cstruct import Pointer, Structure, cstruct  # noqa: E402
from dissect.cstruct.types.structure import UnionProxy  # noqa: E402
from dissect.cstruct.types import Void  # noqa: E402

from .refmodel.codec import RawUnion  # noqa: E402
from .refmodel.types import TArr, TEnum, TPtr, TStruct  # noqa: E402


# --- harness-side speed-up without behavioural effect: re.Scanner compiles its compound pattern on every
# cstruct.load(); the compiled pattern depends only on the phrase strings and flags, so it is memoised on exactly those
# (a change to any token regex in the library yields a different key and is compiled afresh).
import re as _re  # noqa: E402

_scanner_init = _re.Scanner.__init__
_scanner_cache: dict = {}


def _cached_scanner_init(self, lexicon, flags=0):
    key = (tuple(p for p, _ in lexicon), int(flags))
    sc = _scanner_cache.get(key)
    if sc is None:
        _scanner_init(self, lexicon, flags)
        _scanner_cache[key] = self.scanner
    else:
        self.lexicon = lexicon
        self.scanner = sc


if not os.environ.get("VERIF_NO_SCANNER_CACHE"):
    _re.Scanner.__init__ = _cached_scanner_init


def norm(v):
    """Implementation value -> plain Python value (the model's representation)."""
    if isinstance(v, UnionProxy):
        v = v.__target__
    if isinstance(v, Structure):
        return {n: norm(getattr(v, n)) for n in type(v).fields}
    if isinstance(v, _enum.Enum):
        return int(v.value)
    if isinstance(v, bool):
        return int(v)
    if isinstance(v, int):
        return int(v)
    if isinstance(v, float):
        return float(v)
    if isinstance(v, bytes):
        return bytes(v)
    if isinstance(v, str):
        return str(v)
    if isinstance(v, (list, tuple)):
        return [norm(x) for x in v]
    if isinstance(v, Void) or v is None:
        return None
    # anything else is not a value a field can hold (e.g. a stream object that was mistaken for a field value): it never equals a model value
    return f"<not a field value: {type(v).__name__}>"


def same(a, b) -> bool:
    """Equality of plain values that treats NaN as equal to NaN and distinguishes -0.0 from 0.0 and types."""
    return repr(a) == repr(b)


def exc_sig(e: BaseException) -> str:
    """Exception class + innermost library frame (file:function), for clustering."""
    tb = e.__traceback__
    where = "?"
    while tb is not None:
        fn = tb.tb_frame.f_code.co_filename
        if fn.startswith(LIBDIR) or fn.startswith("<compiled"):
            short = fn[len(LIBDIR) + 1 :] if fn.startswith(LIBDIR) else "<compiled>"
            where = f"{short}:{tb.tb_frame.f_code.co_name}"
        tb = tb.tb_next
    return f"{type(e).__name__}@{where}"


def load(text: str, endian: str = "<", align: bool = False, compiled: bool = False, pointer: str | None = None) -> cstruct:
    cs = cstruct(endian=endian, pointer=pointer)
    cs.load(text, compiled=compiled, align=align)
    return cs


def impl_type(cs, t):
    """The implementation type object denoted by a model descriptor (named types only + arrays/pointers of them)."""
    if isinstance(t, TArr):
        raise TypeError("array types are taken from the field")
    return getattr(cs, t.name)


def to_impl(cs, t, v, ftype=None):
    """Plain model value -> value suitable for direct construction / assignment (C01: 'constructed directly').

    ftype is the implementation's field type (used for arrays of structs/enums and unions).
    """
    if isinstance(t, TEnum):
        return getattr(cs, t.name)(v)
    if isinstance(t, TStruct):
        T = ftype if ftype is not None else getattr(cs, t.name)
        if t.union:
            assert isinstance(v, RawUnion)
            return T(v.raw + bytes(max(0, (T.size or 0) - len(v.raw))))
        kw = {}
        for f, implf in zip(t.fields, T.__fields__):
            if f.name is None:
                sub = {g.name: v[g.name] for g in f.type.fields}
                kw[implf._name] = to_impl(cs, f.type, sub, implf.type)
            else:
                kw[implf._name] = to_impl(cs, f.type, v[f.name], implf.type)
        return T(**kw)
    if isinstance(t, TArr):
        et = ftype.type if ftype is not None else None
        if isinstance(v, (bytes, str)):
            return v
        return [to_impl(cs, t.elem, x, et) for x in v]
    if isinstance(t, TPtr):
        return v
    return v


