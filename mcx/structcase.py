"""Shared engine for the definition-driven checks (C01, C02, C03, C04, C06, C07, C08, C09).

A *case* is (atom names, endian, align[, pointer type]); the engine renders it to definition text, loads it through the
real parser with both readers, produces model-derived inputs and runs the real readers/writers on them."""
from __future__ import annotations

import io

from . import impl
from .gen import alphabet, values
from .refmodel import codec
from .refmodel.codec import RefInvalid, decode_with_mask
from .refmodel.types import INTS, Cfg, RefEOF, RefReject, RefUndef, TStruct, layout, render, sizeof

SENTINEL = b"\xee\xed\xec\xeb"


NOLEAD = "!nolead"


def strip(atom_names):
    return tuple(n for n in atom_names if n != NOLEAD)


def build(atom_names, consts=None, lead_n0=True) -> tuple[TStruct, str]:
    if atom_names and atom_names[0] == NOLEAD:
        lead_n0 = False
        atom_names = atom_names[1:]
    seq = [alphabet.by_name(n) for n in atom_names]
    st = alphabet.mk_struct(seq, lead_n0=lead_n0)
    return st, render(st, consts)


def has_eof_tail(st: TStruct) -> bool:
    from .refmodel.types import EOF, TArr

    t = st.fields[-1].type if st.fields else None
    return isinstance(t, TArr) and t.count == EOF


def klasses(atom_names) -> list[str]:
    return [alphabet.by_name(n).klass for n in strip(atom_names)]


def cluster_tail(atom_names) -> str:
    ks = klasses(atom_names)
    return "/".join(ks[-2:])


class Loaded:
    """Both readers of one definition under one configuration."""

    def __init__(self, text: str, endian: str, align: bool, ptr: str | None = None, name: str = "S"):
        self.T = {}
        self.err = {}
        self.cs = {}
        for compiled in (False, True):
            try:
                cs = impl.load(text, endian=endian, align=align, compiled=compiled, pointer=ptr)
                self.cs[compiled] = cs
                self.T[compiled] = getattr(cs, name)
            except Exception as e:  # noqa: BLE001
                self.err[compiled] = e


def layout_sig(T):
    return (
        T.size,
        T.alignment or 1,
        T.dynamic,
        tuple((f._name, f.type.__name__, f.bits, f.offset) for f in T.__fields__),
    )


class Obs:
    __slots__ = ("ok", "value", "tell", "sizes", "obj", "exc", "sig")

    def __init__(self):
        self.ok = False
        self.value = None
        self.tell = None
        self.sizes = None
        self.obj = None
        self.exc = None
        self.sig = None


def parse(T, data: bytes, pos: int = 0) -> Obs:
    o = Obs()
    s = io.BytesIO(data)
    if pos:
        s.seek(pos)
    try:
        v = T._read(s)
        o.obj = v
        o.value = impl.norm(v)
        o.tell = s.tell()
        o.sizes = dict(getattr(v, "_sizes", {}) or {})
        o.ok = True
    except Exception as e:  # noqa: BLE001
        o.exc = e
        o.sig = impl.exc_sig(e)
    return o


class Input:
    __slots__ = ("label", "data", "status", "value", "consumed", "mask", "vals", "canonical")

    def __init__(self, label, data, status, value=None, consumed=None, mask=None, vals=None, canonical=True):
        self.canonical = canonical
        self.label = label
        self.data = data
        self.status = status  # "ok" | "eof" | "invalid" | "undef"
        self.value = value
        self.consumed = consumed
        self.mask = mask
        self.vals = vals  # the plain assignment this input was encoded from (None for raw patterns)


def model_decode(st, data: bytes, cfg: Cfg, label: str, vals=None) -> Input:
    try:
        info: dict = {}
        v, end, mask = decode_with_mask(st, data, cfg, info=info)
        return Input(label, data, "ok", v, end, mask, vals, canonical=not info["noncanonical"])
    except RefEOF:
        return Input(label, data, "eof", vals=vals)
    except RefInvalid:
        return Input(label, data, "invalid", vals=vals)
    except RefUndef:
        return Input(label, data, "undef", vals=vals)


def inputs(st: TStruct, cfg: Cfg, dev: int = 1, raw: bool = True, limit: int | None = None) -> list[Input]:
    """Model-encoded value assignments (<= dev deviations, junk padding, sentinel tail) + raw byte patterns."""
    out = []
    tail = b"" if has_eof_tail(st) else SENTINEL
    for vals, label in values.struct_assignments(st, cfg, dev=dev, limit=limit):
        data = codec.encode_struct(st, vals, cfg) + tail
        out.append(model_decode(st, data, cfg, label, vals))
    if raw:
        for i, data in enumerate(values.raw_patterns()):
            out.append(model_decode(st, data, cfg, f"raw:{i}"))
    return out


def plain_equal_vals(decoded: dict, vals: dict) -> bool:
    """Self-check of the model: decode(encode(vals)) == vals (union members and anonymous markers aside)."""
    for k, v in vals.items():
        if isinstance(k, tuple) or isinstance(v, codec.RawUnion):
            continue
        if not _eq(decoded.get(k), v):
            return False
    return True


def _eq(a, b) -> bool:
    if isinstance(b, codec.RawUnion):
        return True
    if isinstance(b, dict):
        return isinstance(a, dict) and all(_eq(a.get(k), v) for k, v in b.items() if not isinstance(k, tuple))
    if isinstance(b, list):
        return isinstance(a, list) and len(a) == len(b) and all(_eq(x, y) for x, y in zip(a, b))
    return impl.same(a, b)


def case_json(atom_names, endian, align, ptr=None, **extra) -> dict:
    d = {"atoms": list(atom_names), "endian": endian, "align": align}
    if ptr:
        d["ptr"] = ptr
    d.update(extra)
    return d


def features(atom_names, endian, align, reader=None, **extra) -> dict:
    ks = klasses(atom_names)
    f = {"endian": endian, "align": align, "klasses": "/".join(ks), "nfields": len(ks), "nolead": bool(atom_names and atom_names[0] == NOLEAD)}
    if reader is not None:
        f["reader"] = reader
    for k in set(ks):
        f["has:" + k] = True
    f.update(extra)
    return f


def guarded(res, prop_kind: str, names, endian, align, fn, seconds: float = 30.0) -> None:
    """Run fn() under the per-case watchdog; a hang (or runaway memory use) of the library is a violation."""
    from .runner import CaseTimeout, Violation, watchdog

    try:
        with watchdog(seconds):
            fn()
    except CaseTimeout:
        res.violations.append(
            Violation("hang", f"hang|align={align}|{cluster_tail(names)}", case_json(names, endian, align),
                      f"{prop_kind}: case did not finish within {seconds}s (definition {names}, {endian}, align={align})",
                      features(names, endian, align))
        )
    except MemoryError:
        res.violations.append(
            Violation("memory", f"memory|align={align}|{cluster_tail(names)}", case_json(names, endian, align),
                      f"{prop_kind}: case exhausted the worker's memory limit (definition {names})", features(names, endian, align))
        )
