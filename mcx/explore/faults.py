"""Fault enumeration (DESIGN 5.3): cut points and stream faults at every read call."""
from __future__ import annotations

import io


class MinStream:
    """The smallest file-like object the library accepts: read / seek / tell only."""

    def __init__(self, data: bytes, pos: int = 0):
        self._d = bytes(data)
        self._p = pos

    def read(self, n=-1):
        if n is None or n < 0:
            n = max(0, len(self._d) - self._p)
        r = self._d[self._p : self._p + n]
        self._p += len(r)
        return r

    def seek(self, off, whence=0):
        if whence == 0:
            self._p = off
        elif whence == 1:
            self._p += off
        else:
            self._p = len(self._d) + off
        if self._p < 0:
            raise ValueError("negative seek")
        return self._p

    def tell(self):
        return self._p


class InjectedFault(OSError):
    pass


class FaultyStream(MinStream):
    """At the i-th read() call: 'short' returns one byte less than a fault-free read would, 'empty' returns b'',
    'raise' raises OSError.  Every read is logged as (position, requested, returned)."""

    def __init__(self, data: bytes, fault_at: int | None = None, kind: str | None = None, pos: int = 0):
        super().__init__(data, pos)
        self.fault_at = fault_at
        self.kind = kind
        self.log: list[tuple[int, int, int]] = []
        self.injected = None  # (pos, want, got) of the faulted call

    def read(self, n=-1):
        i = len(self.log)
        pos = self._p
        want = n
        if i == self.fault_at:
            full = len(self._d[self._p : (self._p + n) if (n is not None and n >= 0) else None])
            if self.kind == "raise":
                self.log.append((pos, want, -1))
                self.injected = (pos, want, -1, full)
                raise InjectedFault("injected")
            if self.kind == "short":
                got = max(0, full - 1)
            else:
                got = 0
            r = self._d[self._p : self._p + got]
            self._p += len(r)
            self.log.append((pos, want, len(r)))
            self.injected = (pos, want, len(r), full)
            return r
        r = super().read(n)
        self.log.append((pos, want, len(r)))
        return r
