"""Stateless, preemption-bounded exploration of thread schedules at source-line granularity (DESIGN 5.2).

Real threads, one semaphore baton each; a per-thread sys.settrace tracer raises a scheduling point at every `line` event whose code
belongs to the library (files under dissect/cstruct, generated '<compiled ...>' readers and exec-generated methods).  Everything else
(the harness, io, struct, enum internals) runs atomically.  Exploration is the CHESS scheme: run a choice prefix, then default = keep
the current thread running; branch at every later point whose preemption count stays within the bound."""
from __future__ import annotations

import sys
import threading


class ReplayDivergence(RuntimeError):
    pass


class Execution:
    def __init__(self, bodies, prefix, libdir, opcode_files=(), horizon=200000):
        self.bodies = bodies
        self.prefix = prefix
        self.n = len(bodies)
        self.libdir = libdir
        self.opcode_files = tuple(opcode_files)
        self.horizon = horizon
        self.sems = [threading.Semaphore(0) for _ in bodies]
        self.main_sem = threading.Semaphore(0)
        self.done = [False] * self.n
        self.results = [None] * self.n
        self.points = []  # (running thread | None, canonical order of enabled threads, where)
        self.choices = []
        self.aborted = False

    def _choose(self, tid, order, where):
        i = len(self.points)
        if i < len(self.prefix):
            c = self.prefix[i]
            if c >= len(order):
                raise ReplayDivergence(f"choice {c} out of range at point {i}")
        else:
            c = 0
        self.points.append((tid, order, where))
        self.choices.append(c)
        return order[c]

    def point(self, tid, where):
        if len(self.points) > self.horizon:
            self.aborted = True
            return
        enabled = [t for t in range(self.n) if not self.done[t]]
        order = tuple([tid] + [t for t in enabled if t != tid])  # running thread first, then ascending ids
        nxt = self._choose(tid, order, where)
        if nxt != tid:
            self.sems[nxt].release()
            self.sems[tid].acquire()

    def _is_lib(self, fn: str) -> bool:
        return fn.startswith(self.libdir) or fn.startswith("<compiled") or fn == "<string>"

    def _tracer(self, tid):
        libdir = self.libdir

        def local_line(frame, event, arg):
            if event == "line":
                self.point(tid, (frame.f_code.co_filename[len(libdir) :] if frame.f_code.co_filename.startswith(libdir) else frame.f_code.co_filename, frame.f_lineno))
            return local_line

        def local_op(frame, event, arg):
            if event == "opcode":
                self.point(tid, (frame.f_code.co_filename[len(libdir) :], frame.f_lineno, frame.f_lasti))
            return local_op

        def glob(frame, event, arg):
            fn = frame.f_code.co_filename
            if self._is_lib(fn):
                if self.opcode_files and fn.endswith(self.opcode_files):
                    frame.f_trace_opcodes = True
                    return local_op
                return local_line
            return None

        return glob

    def _run(self, tid):
        self.sems[tid].acquire()
        sys.settrace(self._tracer(tid))
        try:
            self.results[tid] = ("ok", self.bodies[tid]())
        except Exception as e:  # noqa: BLE001
            self.results[tid] = ("exc", type(e).__name__, str(e)[:80])
        finally:
            sys.settrace(None)
            self.done[tid] = True
            rest = tuple(t for t in range(self.n) if not self.done[t])
            if rest:
                nxt = self._choose(None, rest, "end")  # thread end: free switch point
                self.sems[nxt].release()
            else:
                self.main_sem.release()

    def run(self):
        ths = [threading.Thread(target=self._run, args=(t,), daemon=True) for t in range(self.n)]
        for t in ths:
            t.start()
        first = self._choose(None, tuple(range(self.n)), "start")
        self.sems[first].release()
        self.main_sem.acquire()
        for t in ths:
            t.join()
        return self


def preemptions_before(x: Execution):
    pre = 0
    out = []
    for i, (tid, order, where) in enumerate(x.points):
        out.append(pre)
        if tid is not None and x.choices[i] != 0:
            pre += 1
    return out


def children(x: Execution, prefix_len: int, bound: int):
    """Choice prefixes that deviate from execution x at one point beyond prefix_len, within the preemption bound."""
    pres = preemptions_before(x)
    for i in range(prefix_len, len(x.points)):
        tid, order, where = x.points[i]
        cost = pres[i] + (1 if tid is not None else 0)
        if cost > bound:
            continue
        for alt in range(1, len(order)):
            yield x.choices[:i] + [alt]


def explore(make_bodies, bound, check, libdir, roots=None, opcode_files=(), limit=None, leaves=()):
    """Depth-first over choice prefixes.  Returns stats, outcomes, list of (choices, results) violating `check`.
    Prefixes in `leaves` are executed and checked but not expanded (their children are roots of other shards)."""
    leaves = {tuple(p) for p in leaves}
    stats = {"executions": 0, "points": 0, "maxpoints": 0, "capped": False}
    outcomes = {}
    violations = []
    # depth-first over a stack of *lazy* child enumerations: materialising all children of an execution costs memory quadratic in its number of
    # scheduling points (tens of thousands at byte-code granularity)
    stack = [iter([list(r) for r in (roots if roots is not None else [[]])])]
    while stack:
        prefix = next(stack[-1], None)
        if prefix is None:
            stack.pop()
            continue
        x = Execution(make_bodies(), prefix, libdir, opcode_files).run()
        stats["executions"] += 1
        stats["points"] += len(x.points)
        stats["maxpoints"] = max(stats["maxpoints"], len(x.points))
        if x.aborted:
            stats["capped"] = True
        key = repr(x.results)
        outcomes[key] = outcomes.get(key, 0) + 1
        if not check(x.results):
            if len(violations) < 5:
                violations.append((list(x.choices), x.results, [p[2] for i, p in enumerate(x.points) if x.choices[i] != 0][:4]))
            else:
                violations.append(None)
        if limit and stats["executions"] >= limit:
            stats["capped"] = True
            break
        if tuple(prefix) not in leaves:
            stack.append(children(x, len(prefix), bound))
    return stats, outcomes, violations
