"""C07 - array length semantics: fixed, expression, null-terminated, to-end-of-stream; C order; write refusal."""
from __future__ import annotations

import itertools

from .. import impl
from ..impl import same
from .. import structcase as sc
from ..gen import alphabet as A
from ..gen import defs, values
from ..refmodel import codec
from ..refmodel.types import CHAR, EOF, FLOATS, ILEB, INTS, ULEB, WCHAR, Cfg, RefReject, TArr, TChar, TEnum, TField, TInt, TLeb, TPtr, TStruct, TWchar, layout, render
from ..runner import JobResult, Violation
from . import _conf

ID = "C07"
LEVEL = "model_checking"
TASKS_PER_CHILD = 10

ELEMS = {
    "uint8": INTS["uint8"], "int16": INTS["int16"], "uint24": INTS["uint24"], "int48": INTS["int48"], "uint64": INTS["uint64"],
    "float": FLOATS["float"], "char": CHAR, "wchar": WCHAR, "uleb128": ULEB, "ileb128": ILEB, "E8": A.E8, "E16s": A.E16s, "F16": A.F16, "E24": A.E24,
    "in_t": A.IN, "inint_t": A.ININT, "ind_t": A.IND, "un_t": A.UN, "uint8[2]": TArr(INTS["uint8"], 2), "char[2]": TArr(CHAR, 2),
    "uint16[3]": TArr(INTS["uint16"], 3), "uint8*": TPtr(INTS["uint8"]),
}
NULLTERM_OK = {"uint8", "int16", "uint24", "int48", "uint64", "char", "wchar", "uleb128", "ileb128", "E8", "E16s", "F16", "E24", "inint_t"}
# (label, count, consts)   [n0-3600] passes through -3599 = -0xE0F, the value the library uses internally as its "to end of stream" marker
FORMS = [
    ("[0]", 0, {}), ("[1]", 1, {}), ("[3]", 3, {}),
    ("[n0]", "n0", {}), ("[n0*2]", "n0*2", {}), ("[n0-2]", "n0-2", {}), ("[K]", "K", {"K": 2}), ("[K+n0]", "K+n0", {"K": 2}),
    ("[ak]", "ak", {}), ("[ak*2-n0]", "ak*2-n0", {}), ("[ak]#ak=3", "ak", {"ak": 3}), ("[ak+K]#ak=3", "ak+K", {"ak": 3, "K": 1}), ("[n0-3600]", "n0-3600", {}), ("[2-3]", "2-3", {}), ("[K-3]", "K-3", {"K": 2}), ("[K-K]", "K-K", {"K": 2}), ("[n0]#n0=7", "n0", {"n0": 7}), ("[2+n0*K]", "2+n0*K", {"K": 3}), ("[]", None, {}), ("[EOF]", EOF, {}),
]
INNER_DIMS = [("[2][3]", (2, 3)), ("[n0][2]", ("n0", 2)), ("[2][n0]", (2, "n0")), ("[3][1]", (3, 1)), ("[EOF][n0]", (EOF, "n0")), ("[EOF][2]", (EOF, 2))]


def cases(tier):
    for ename in ELEMS:
        for flabel, count, consts in FORMS:
            if count is None and ename not in NULLTERM_OK:
                continue
            if isinstance(ELEMS[ename], TArr) and count is None:
                continue
            for pos in ("last", "mid"):
                if count == EOF and pos == "mid":
                    continue
                yield (ename, flabel, pos)
    # an inline (nested) declaration between the count field and the array: the count is still the field, also when a constant has its name
    for ename in ("uint8", "int16", "uint24", "char", "in_t"):
        for flabel in ("[n0]", "[n0]#n0=7", "[K+n0]", "[n0*2]"):
            yield (ename, flabel, "inline")
    for ename in ("uint8", "int16", "uint24", "char", "wchar", "in_t", "E16s"):
        for dlabel, dims in INNER_DIMS:
            for pos in ("last", "mid"):
                if dims[0] == EOF and pos == "mid":
                    continue
                yield (ename, dlabel, pos)


def jobs(tier):
    return [(tier, c) for c in defs.chunks(cases(tier), 8)] + [("refusal", tier), ("samename", tier), ("long", tier), ("legacy", tier)]


def build(ename, flabel, pos):
    e = ELEMS[ename]
    consts = {}
    dims = dict(INNER_DIMS).get(flabel)
    if dims is not None:
        t = TArr(TArr(e, dims[1]), dims[0])
    else:
        for lab, count, c in FORMS:
            if lab == flabel:
                t = TArr(e, count)
                consts = c
    fs = [TField("n0", INTS["uint8"])]
    if "ak" in flabel:
        # the count comes from a member of an anonymous structure read before the array (a field of the parent, too)
        fs.append(TField(None, TStruct("__anon_k", (TField("ak", INTS["uint8"]), TField("al", INTS["uint8"])))))
    if pos == "inline":
        fs.append(TField("inl", TStruct("__anon_inl", (TField("iq", INTS["uint8"]), TField("ir", INTS["uint16"])))))
        fs.append(TField("inu", TStruct("__anon_inu", (TField("uq", INTS["uint8"]), TField("ur", INTS["uint8"])), union=True)))
    fs.append(TField("f", t))
    if pos == "mid":
        fs.append(TField("tail", INTS["uint16"]))
    st = TStruct("S", tuple(fs))
    return st, render(st, consts), consts


def check_case(ename, flabel, pos, endian, align, res: JobResult, tier="quick"):
    st, text, consts = build(ename, flabel, pos)
    cfg = Cfg(endian=endian, align=align, consts=consts)
    case = {"elem": ename, "form": flabel, "pos": pos, "endian": endian, "align": align}

    def viol(kind, detail, reader=None, inp=None):
        c = dict(case)
        if inp is not None:
            c["input"] = inp.data.hex()
        res.violations.append(Violation(kind, f"{kind}|{ename}|{flabel}|{pos}", c, f"{text!r} {endian} align={align} " + detail,
                                        {"elem": ename, "form": flabel, "pos": pos, "endian": endian, "align": align, "reader": reader}))

    try:
        layout(st, cfg)
    except RefReject:
        return
    L = sc.Loaded(text, endian, align)
    res.transitions += 2
    for compiled, e in L.err.items():
        viol("load:raises", f"compiled={compiled}: {impl.exc_sig(e)} {e!r}")
    if not L.T:
        return
    tail = b"" if sc.has_eof_tail(st) else sc.SENTINEL
    ins = []
    for vals, label in values.struct_assignments(st, cfg, dev=2, limit=150 if tier == "quick" else 600):
        data = codec.encode_struct(st, vals, cfg)
        ins.append(sc.model_decode(st, data + tail, cfg, label, vals))
        if flabel == "[]" and label in ("base", "dev:1=1", "dev:1=3"):
            # terminator absent: cut right before the terminator (and everything after it)
            arr_end = _array_end(st, vals, cfg)
            if arr_end is not None:
                ins.append(sc.model_decode(st, data[:arr_end], cfg, label + ":no-terminator", None))
    for i, d in enumerate(values.raw_patterns(64)):
        ins.append(sc.model_decode(st, d, cfg, f"raw:{i}"))
    res.nontrivial += sum(1 for i in ins if i.status == "ok")
    _conf.conform(L, ins, res, viol)
    if flabel == "[EOF]":
        # a partial element at the end of the input: raising or ignoring it are both acceptable, but every element that is returned must be a whole,
        # genuine element ("takes every remaining WHOLE element")
        for inp in [i for i in ins if i.status == "ok" and i.vals is not None][:4]:
            whole = inp.value["f"]
            for extra in (b"\x81", b"\x81\x82", b"\x81\x82\x83\x84\x85"):
                data = inp.data + extra
                chk = sc.model_decode(st, data, cfg, "partial-tail")
                if chk.status == "ok" and len(chk.value["f"]) != len(whole):
                    continue  # the extra bytes form a whole element (variable-size elements): not a partial tail
                for compiled, T in L.T.items():
                    o = sc.parse(T, data)
                    res.evaluations += 1
                    res.transitions += 1
                    if not o.ok:
                        continue
                    got = o.value.get("f")
                    if not (len(got) <= len(whole) and same(got, whole[: len(got)])):
                        viol("eof:partial-element-returned", f"in={data.hex()} (whole elements {whole!r} + {len(extra)} stray bytes): parsed f={got!r}", "compiled" if compiled else "interpreted", None)
    # element count / C order are part of value equality with the model's flat decoding
    if len(res.samples) < 2:
        res.samples.append({"definition": text, "endian": endian, "align": align, "inputs": len(ins), "first": ins[0].data.hex() if ins else ""})


def _array_end(st, vals, cfg):
    """Length of the encoding up to (not including) the terminator of the null-terminated field f."""
    head = TStruct("S", st.fields[:2])
    full = codec.encode_struct(head, vals, cfg)
    e = st.fields[1].type.elem
    if isinstance(e, TLeb):
        tl = 1
    elif isinstance(e, TStruct):
        tl = len(codec.encode_struct(e, codec.zero_of(e, cfg), cfg))
    else:
        from ..refmodel.types import sizeof

        tl = sizeof(e, cfg)
    if cfg.align and isinstance(e, TStruct):
        return None
    return len(full) - tl


def refusal(tier) -> JobResult:
    """Dumping a fixed-size array of non-character elements with a different number of elements is refused."""
    from dissect.cstruct import cstruct

    res = JobResult()
    # (arrays of variable-size elements such as uleb128[n] have a fixed count but no fixed size: the statement's "fixed-size array" does not
    # clearly cover them, so they are left out - DESIGN 7.18)
    names = ["uint8", "int16", "uint24", "int48", "uint64", "float", "E8", "E16s", "F16", "in_t", "inint_t", "un_t", "uint8*", "wchar_as_elem"]
    text = render(TStruct("Z", (TField("a", A.E8), TField("b", A.E16s), TField("c", A.F16), TField("d", A.IN), TField("e", A.ININT), TField("g", A.UN))))
    for endian in "<>":
        for ename in names:
            if ename == "wchar_as_elem":
                continue
            for n in (0, 1, 2, 3):
                for ctx in ("standalone", "field", "nested"):
                    cs = cstruct(endian=endian)
                    cs.load(text)
                    et = "uint8 *" if ename == "uint8*" else ename
                    decl = f"{et}f[{n}]" if ename == "uint8*" else f"{ename} f[{n}]"
                    cs.load(f"struct W {{ uint8 h; {decl}; uint8 t; }};\nstruct N {{ {et if ename != 'uint8*' else 'uint8 *'}{'' if ename == 'uint8*' else ' '}g[2][{n}]; }};")
                    AT = cs.W.fields["f"].type
                    ET = AT.type
                    good = [ET.__default__() for _ in range(n)]
                    for m in sorted(x for x in {0, n - 1, n + 1, n + 2} - {n} if x >= 0):
                        bad = [ET.__default__() for _ in range(m)]
                        res.evaluations += 1
                        res.states += 1
                        res.transitions += 1
                        res.nontrivial += 1
                        case = {"refusal": ename, "n": n, "given": m, "context": ctx, "endian": endian}
                        try:
                            if ctx == "standalone":
                                out = AT.dumps(bad)
                            elif ctx == "field":
                                out = cs.W(h=1, f=bad, t=2).dumps()
                            else:
                                out = cs.N(g=[good, bad]).dumps()
                        except Exception:  # noqa: BLE001
                            continue
                        res.violations.append(Violation("write:wrong-size-accepted", f"write:wrong-size-accepted|{ename}|{ctx}", case,
                            f"{ename}[{n}] given {m} elements in context {ctx}: dumps returned {out.hex()} instead of refusing", {"elem": ename, "context": ctx}))
                    # and the right size is accepted
                    try:
                        AT.dumps(good)
                    except Exception as e:  # noqa: BLE001
                        res.violations.append(Violation("write:right-size-refused", f"write:right-size-refused|{ename}", {"refusal": ename, "n": n, "given": n, "context": "standalone", "endian": endian},
                            f"{ename}[{n}] given {n} default elements: {impl.exc_sig(e)} {e!r}", {"elem": ename}))
    res.samples.append({"refusal_table": names, "sizes": [1, 2, 3], "wrong_lengths": "0, n-1, n+1, n+2"})
    return res


LEGACY_DEFS = [
    # (text for the legacy parser, struct name, [(input, expected plain value)])
    ("#define n 3\nstruct A {\n uint8 n;\n uint8 data[n];\n uint8 t;\n};\n", "A", [(bytes([1, 9, 7, 6, 5]), {"n": 1, "data": [9], "t": 7}), (bytes([0, 7, 6]), {"n": 0, "data": [], "t": 7})]),
    ("#define K 2\nstruct B {\n uint8 n;\n uint16 d[n * K];\n uint8 e[K];\n char s[];\n uint8 t;\n};\n", "B",
     [(bytes([1, 1, 0, 2, 0, 8, 9]) + b"ab\x00\x07", {"n": 1, "d": [1, 2], "e": [8, 9], "s": b"ab", "t": 7})]),
    ("struct C {\n uint8 k;\n uint8 m;\n uint8 x[k + m];\n uint8 y[k - 3];\n uint8 t;\n};\n", "C", [(bytes([1, 1, 5, 6, 7]), {"k": 1, "m": 1, "x": [5, 6], "y": [], "t": 7})]),
]


def legacy(tier) -> JobResult:
    """The same length semantics through the legacy (regex) definition parser: counts refer to earlier fields before constants."""
    from dissect.cstruct import cstruct

    res = JobResult()
    for text, name, cases_ in LEGACY_DEFS:
        for compiled in (False, True):
            cs = cstruct(endian="<")
            case = {"legacy": name, "compiled": compiled}
            try:
                cs.load(text, deftype=cstruct.DEF_LEGACY, compiled=compiled)
            except Exception as e:  # noqa: BLE001
                res.violations.append(Violation("legacy:load-raises", f"legacy:load-raises|{name}", case, f"{text!r}: {impl.exc_sig(e)} {e!r}"))
                continue
            for data, exp in cases_:
                res.evaluations += 1
                res.states += 1
                res.transitions += 1
                res.nontrivial += 1
                try:
                    got = impl.norm(getattr(cs, name)(data))
                except Exception as e:  # noqa: BLE001
                    got = f"{impl.exc_sig(e)} {e!r}"
                if not same(got, exp):
                    res.violations.append(Violation("legacy:value", f"legacy:value|{name}", dict(case, input=data.hex()), f"{text!r} (legacy parser, compiled={compiled}) on {data.hex()}: {got}, expected {exp}"))
    res.samples.append({"legacy": [d[1] for d in LEGACY_DEFS]})
    return res


def samename(tier) -> JobResult:
    """Two *different* element types that carry the same name inside one cstruct object (inline named structs): every array form
    must use its own element type (element boundaries follow the element size)."""
    res = JobResult()
    ea = TStruct("entry_a", (TField("a", INTS["uint8"]),))
    eb = TStruct("entry_b", (TField("a", INTS["uint16"]), TField("b", INTS["uint8"])))
    forms = [("[2]", 2), ("[n0]", "n0"), ("[]", None), ("[EOF]", EOF)]
    for (fa, ca), (fb, cb) in itertools.product(forms, forms):
        for order in ("AB", "BA"):
            sts = {}
            parts = {}
            for nm, e, lab, cnt in (("A", ea, fa, ca), ("B", eb, fb, cb)):
                fs = [TField("n0", INTS["uint8"]), TField("items", TArr(e, cnt))]
                if cnt != EOF:
                    fs.append(TField("t", INTS["uint8"]))
                sts[nm] = TStruct(nm, tuple(fs))
                body = " ".join(f"{g.type.name} {g.name};" for g in e.fields)
                dim = "" if cnt is None else str(cnt)
                parts[nm] = f"struct {nm} {{ uint8 n0; struct entry {{ {body} }} items[{dim}]; " + ("" if cnt == EOF else "uint8 t; ") + "};"
            text = "\n".join(parts[k] for k in order)
            for endian in "<>":
                for align in (False, True):
                    cfg = Cfg(endian=endian, align=align)
                    for nm in "AB":
                        st = sts[nm]
                        L = sc.Loaded(text, endian, align, name=nm)
                        res.transitions += 2

                        def viol(kind, detail, reader=None, inp=None, nm=nm):
                            c = {"samename": [fa, fb], "order": order, "which": nm, "endian": endian, "align": align}
                            res.violations.append(Violation(kind, f"samename:{kind}|{nm}", c, f"{text!r} struct {nm} {endian} align={align} " + detail, {"samename": True, "reader": reader}))

                        for compiled, e in L.err.items():
                            viol("load:raises", f"compiled={compiled}: {impl.exc_sig(e)} {e!r}")
                        if not L.T:
                            continue
                        tail = b"" if sc.has_eof_tail(st) else sc.SENTINEL
                        ins = [sc.model_decode(st, codec.encode_struct(st, vals, cfg) + tail, cfg, label, vals) for vals, label in values.struct_assignments(st, cfg, dev=1, limit=12)]
                        res.nontrivial += len(ins)
                        _conf.conform(L, ins, res, viol)
    res.samples.append({"samename": "struct A { ... struct entry {uint8 a;} items[..]; }; struct B { ... struct entry {uint16 a; uint8 b;} items[..]; }; all 16 form pairs x 2 orders"})
    return res


LONG_LENGTHS = (63, 64, 65, 127, 128, 255, 256, 257, 300, 513)


def long_arrays(tier) -> JobResult:
    """Long arrays and strings (bulk / chunked code paths): null-terminated, expression-sized and to-end-of-stream, followed by a field."""
    res = JobResult()
    elems = {"char": CHAR, "wchar": WCHAR, "uint8": INTS["uint8"], "int16": INTS["int16"], "uint24": INTS["uint24"], "uleb128": ULEB, "E8": A.E8}
    for ename, e in elems.items():
        for form, count in (("[]", None), ("[n * 2 + m]", "n * 2 + m"), ("[EOF]", EOF)):
            fs = [TField("n", INTS["uint16"]), TField("m", INTS["uint8"]), TField("f", TArr(e, count))]
            if count != EOF:
                fs.append(TField("tail", INTS["uint16"]))
            st = TStruct("S", tuple(fs))
            text = render(st)
            for endian in "<>":
                cfg = Cfg(endian=endian)
                L = sc.Loaded(text, endian, False)
                res.transitions += 2

                def viol(kind, detail, reader=None, inp=None, ename=ename, form=form):
                    res.violations.append(Violation(kind, f"long:{kind}|{ename}|{form}", {"long": ename, "form": form, "endian": endian, "label": inp.label if inp else None},
                                                    f"{text!r} {endian} {inp.label if inp else ''}: " + detail[:300], {"elem": ename, "form": form, "reader": reader, "long": True}))

                for compiled, ex in L.err.items():
                    viol("load:raises", f"{ex!r}")
                ins = []
                for ln in LONG_LENGTHS:
                    if isinstance(e, TChar):
                        items = bytes(0x21 + (i % 90) for i in range(ln))
                    elif isinstance(e, TWchar):
                        items = "".join(chr(0x100 + (i % 500)) for i in range(ln))
                    else:
                        alpha = [x for x in values.value_alphabet(e, cfg, {}) if not codec.is_zero(x)]
                        items = [alpha[i % len(alpha)] for i in range(ln)]
                    n, m = (ln - 1) // 2, (ln - 1) % 2 + 1 if False else (ln % 2)
                    n = (ln - m) // 2
                    vals = {"n": n, "m": m, "f": items, "tail": 0x7E7F}
                    data = codec.encode_struct(st, vals, cfg) + (b"" if count == EOF else sc.SENTINEL)
                    ins.append(sc.model_decode(st, data, cfg, f"len={ln}", vals))
                res.nontrivial += len(ins)
                _conf.conform(L, ins, res, viol)
    res.samples.append({"long": list(elems), "lengths": list(LONG_LENGTHS)})
    return res


def run(job) -> JobResult:
    if job[0] == "long":
        return long_arrays(job[1])
    if job[0] == "legacy":
        return legacy(job[1])
    if job[0] == "refusal":
        return refusal(job[1])
    if job[0] == "samename":
        return samename(job[1])
    res = JobResult()
    tier, chunk = job
    from ..runner import CaseTimeout, watchdog

    for ename, flabel, pos in chunk:
        for endian in "<>":
            for align in (False, True):
                try:
                    with watchdog(60):
                        check_case(ename, flabel, pos, endian, align, res, tier)
                except CaseTimeout:
                    res.violations.append(Violation("hang", f"hang|{ename}|{flabel}", {"elem": ename, "form": flabel, "pos": pos, "endian": endian, "align": align}, "case did not finish within 60s"))
    return res


def replay(case):
    if "refusal" in case:
        return [v for v in refusal("thorough").violations if v.case == case]
    if "samename" in case:
        return [v for v in samename("thorough").violations if v.case == case]
    if "legacy" in case:
        return [v for v in legacy("thorough").violations if v.case == case]
    if "long" in case:
        return [v for v in long_arrays("thorough").violations if v.case == case]
    res = JobResult()
    check_case(case["elem"], case["form"], case["pos"], case["endian"], case["align"], res, "thorough")
    return res.violations


def meta(tier):
    return {
        "rule": "case = (element type, length form, position, endian, align, reader, input); 22 element types x {[0],[1],[3],[n0],[n0*2],[n0-2],[K],[K+n0],"
        "[2+n0*K],[n0] with a #define of the same name (field wins),[],[EOF]} x {last, followed by a field}, 2-D forms [2][3],[n0][2],[2][n0],[3][1]; inputs: "
        "value assignments with n0 in {2,0,1,3}, array lengths {2,0,1,3} for [] and [EOF], terminator absent, raw patterns; oracle: the model's flat "
        "decoding (count, contents, C order, tell), dumps re-appends the terminator; plus the write-refusal table (14 element types x n in {1,2,3} x "
        "wrong lengths {0,n-1,n+1,n+2} x 3 contexts); non-trivial = accepted inputs and every refusal case",
        "bounds": {"elements": list(ELEMS), "forms": [f[0] for f in FORMS] + [d[0] for d in INNER_DIMS], "deviations": 2, "inputs_per_definition": 150 if tier == "quick" else 600},
        "assumptions": ["null-terminated arrays only over the element kinds the statement lists", "[EOF] with a partial last element is outside the claim"],
    }
