"""Model conformance of one structure definition on given inputs (shared by C04, C06, C07): the real readers' value and
consumed length equal the model's, dumps() reproduces the data bits with zero padding, and the dump parses back."""
from __future__ import annotations

import io

from .. import impl
from .. import structcase as sc
from ..impl import same


def conform(L: "sc.Loaded", ins, res, viol, readers=(False, True), check_dump=True, must_raise_on_eof=True):
    """viol(kind, detail, reader, inp) records a violation.  Returns number of fully checked (reader, input) pairs."""
    n = 0
    for compiled in readers:
        if compiled in L.err:
            continue
        reader = "compiled" if compiled else "interpreted"
        T = L.T[compiled]
        seen = set()
        for inp in ins:
            if inp.data in seen:
                continue
            seen.add(inp.data)
            if inp.status == "undef":
                continue
            res.evaluations += 1
            res.states += 1
            res.transitions += 1
            o = sc.parse(T, inp.data)
            hexin = inp.data[:48].hex()
            if inp.status in ("eof", "invalid"):
                if o.ok and must_raise_on_eof:
                    viol(f"parse:returns-on-{inp.status}-input", f"in={hexin}: returned {o.value}", reader, inp)
                continue
            if not o.ok:
                viol("parse:raises-on-accepted-input", f"in={hexin}: {o.sig} {o.exc!r}; model={inp.value}", reader, inp)
                continue
            if not same(o.value, inp.value):
                viol("model:value", f"in={hexin}: parsed={o.value} model={inp.value}", reader, inp)
                continue
            if o.tell != inp.consumed:
                viol("model:consumed", f"in={hexin}: consumed={o.tell} model={inp.consumed}", reader, inp)
                continue
            res.traces += 1
            n += 1
            if not check_dump:
                continue
            try:
                out = o.obj.dumps()
                res.transitions += 1
            except Exception as e:  # noqa: BLE001
                viol("dump:raises", f"in={hexin}: {impl.exc_sig(e)} {e!r}", reader, inp)
                continue
            if len(out) != o.tell:
                viol("dump:length", f"in={hexin}: consumed {o.tell}, dumped {len(out)}: {out.hex()}", reader, inp)
                continue
            if inp.canonical:
                bad = None
                for i in range(min(o.tell, len(inp.mask))):
                    m = inp.mask[i]
                    if (out[i] ^ inp.data[i]) & m:
                        bad = ("dump:data-bit-changed", i)
                        break
                    if out[i] & ~m & 0xFF:
                        bad = ("dump:padding-nonzero", i)
                        break
                if bad:
                    viol(bad[0], f"byte {bad[1]}: in={hexin} out={out.hex()} mask={inp.mask.hex()}", reader, inp)
                    continue
            try:
                v2 = impl.norm(T(io.BytesIO(out + (b"" if o.tell >= len(inp.data) else sc.SENTINEL))))
                if not same(v2, o.value) and "nan" not in repr(o.value):
                    viol("dump:reparse-differs", f"in={hexin} out={out.hex()}: {v2} != {o.value}", reader, inp)
            except Exception as e:  # noqa: BLE001
                viol("dump:reparse-raises", f"in={hexin} out={out.hex()}: {impl.exc_sig(e)} {e!r}", reader, inp)
    return n
