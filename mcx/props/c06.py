"""C06 - bit-fields partition their storage unit exactly, in endian-defined order; writing is the inverse of reading."""
from __future__ import annotations

import io
import itertools

from .. import impl
from .. import structcase as sc
from ..gen import alphabet as A
from ..gen import defs
from ..impl import same
from ..refmodel import codec
from ..refmodel.codec import decode_with_mask
from ..refmodel.types import CHAR, INTS, VOID, Cfg, RefReject, TArr, TEnum, TField, TStruct, layout, render
from ..runner import JobResult, Violation
from . import _conf

ID = "C06"
LEVEL = "model_checking"
TASKS_PER_CHILD = 8

E8b = TEnum("E8b", INTS["uint8"], (("A", 1), ("B", 2)))
E16b = TEnum("E16b", INTS["int16"], (("A", 1), ("B", -2)))
F16b = TEnum("F16b", INTS["uint16"], (("P", 1), ("Q", 2), ("R", 8)), flag=True)

STORAGE = {
    "uint8": (INTS["uint8"], (1, 2, 3, 4, 5, 6, 7, 8)),
    "int8": (INTS["int8"], (1, 3, 4, 5, 8)),
    "uint16": (INTS["uint16"], (1, 4, 7, 8, 12, 15, 16)),
    "int16": (INTS["int16"], (1, 5, 8, 11, 16)),
    "uint32": (INTS["uint32"], (1, 8, 31, 32)),
    "int32": (INTS["int32"], (1, 16, 31)),
    "uint64": (INTS["uint64"], (1, 33, 63, 64)),
    "int64": (INTS["int64"], (31, 33)),
    "uint24": (INTS["uint24"], (1, 12, 23, 24)),
    "int24": (INTS["int24"], (5, 12, 19)),
    "int48": (INTS["int48"], (24, 47)),
    "char": (CHAR, (1, 4, 7, 8)),
    "E8b": (E8b, (2, 4, 8)),
    "E16b": (E16b, (4, 12)),
    "F16b": (F16b, (4, 12)),
}
CONTEXTS = ("none", "u8-before", "u32-after", "u8-between", "dyn-before", "struct-before", "struct-after", "dyn-between", "void-between", "zero-array-between", "dyn-adjacent")


def sequences(tier):
    """(tuple of (storage name, width)) - all width sequences over one storage type, and mixed-storage sequences."""
    m_max = 3 if tier == "quick" else 4
    for sname, (_, widths) in STORAGE.items():
        ws = widths
        if tier == "quick" and sname == "uint8":
            ws = (1, 3, 4, 5, 7, 8)
        for m in range(1, m_max + 1):
            if m == 4 and len(ws) > 5:
                ws4 = ws if sname == "uint8" else ws[:5]
            else:
                ws4 = ws
            for combo in itertools.product(ws4 if m == 4 else ws, repeat=m):
                yield tuple((sname, w) for w in combo)
    mixed = ["uint8", "uint16", "char", "E8b", "int16", "uint24", "uint32"]
    pick = {"uint8": (3, 8), "uint16": (4, 16), "char": (4,), "E8b": (4,), "int16": (5,), "uint24": (12,), "uint32": (1, 31)}
    for m in (2, 3):
        for types in itertools.product(mixed if tier == "thorough" else mixed[:5], repeat=m):
            if len(set(types)) == 1:
                continue
            for combo in itertools.product(*[pick[t] for t in types]):
                yield tuple(zip(types, combo))


def jobs(tier):
    seqs = list(sequences(tier))
    ctxs = CONTEXTS if tier == "thorough" else ("none", "u8-before", "u32-after", "dyn-between", "struct-after", "void-between", "dyn-adjacent")
    sp = [s_ for s_ in seqs if len(s_) <= 2 and all(w in (1, 3, 4, 5, 12, 31) for _, w in s_)]
    return [(tier, c, ctxs) for c in defs.chunks(seqs, 12 if tier == "quick" else 30)] + [("spellings", c, ("none", "u32-after", "dyn-between")) for c in defs.chunks(sp, 40)]


def build(seq, context):
    fs = []
    bits = [TField(f"b{i}", STORAGE[s][0], w) for i, (s, w) in enumerate(seq)]
    dyn = [TField("n0", INTS["uint8"]), TField("d", TArr(CHAR, "n0"))]
    if context == "none":
        fs = bits
    elif context == "u8-before":
        fs = [TField("h", INTS["uint8"])] + bits
    elif context == "u32-after":
        fs = bits + [TField("t", INTS["uint32"])]
    elif context == "u8-between":
        fs = bits[:1] + [TField("m", INTS["uint8"])] + bits[1:] if len(bits) > 1 else [TField("h", INTS["uint8"])] + bits + [TField("t", INTS["uint8"])]
    elif context == "void-between":
        # a member that occupies no bytes still ends the storage unit
        fs = bits[:1] + [TField("vd", VOID)] + bits[1:] + [TField("t", INTS["uint8"])] if len(bits) > 1 else bits + [TField("vd", VOID), TField("t", INTS["uint8"])]
    elif context == "zero-array-between":
        fs = bits[:1] + [TField("z", TArr(INTS["uint16"], 0))] + bits[1:] + [TField("t", INTS["uint8"])] if len(bits) > 1 else bits + [TField("z", TArr(INTS["uint16"], 0)), TField("t", INTS["uint8"])]
    elif context == "dyn-adjacent":
        # the dynamically sized member directly follows a partly used unit (its count was read before the unit)
        fs = [TField("n0", INTS["uint8"])] + bits[:1] + [TField("d", TArr(CHAR, "n0"))] + bits[1:] + [TField("t", INTS["uint8"])]
    elif context == "dyn-before":
        fs = dyn + bits + [TField("t", INTS["uint16"])]
    elif context == "dyn-between":
        fs = [TField("h", INTS["uint8"])] + bits[:1] + dyn + bits[1:] + [TField("t", INTS["uint8"])]
    elif context == "struct-before":
        fs = [TField("s", A.IN)] + bits
    elif context == "struct-after":
        fs = bits + [TField("s", A.IN2)]
    return TStruct("S", tuple(fs))


def unit_patterns(size: int, full8: bool):
    nbits = size * 8
    if size == 1 and full8:
        for v in range(256):
            yield v
        return
    yield 0
    yield (1 << nbits) - 1
    yield int.from_bytes(bytes(range(0x81, 0x81 + size)), "big")
    for i in range(nbits):
        yield 1 << i
    step = 1 if nbits <= 16 else 5
    for i in range(0, nbits - 1, step):
        yield (1 << i) | (1 << (nbits - 1 - (i % nbits)))
        yield ((1 << nbits) - 1) ^ (1 << i)


def write_values(width: int):
    vals = [0, 1, (1 << width) - 1, (0xAAAAAAAAAAAAAAAAAA >> 1) & ((1 << width) - 1)]
    out = []
    for v in vals:
        if v not in out:
            out.append(v)
    return out


import sys as _sys

NATIVE = "<" if _sys.byteorder == "little" else ">"
SPELLINGS = {"@": NATIVE, "=": NATIVE, "!": ">"}  # other spellings the library accepts for a byte order -> the order they denote


def check_case(seq, context, endian, align, res: JobResult, tier="quick", spelling=None):
    """`spelling`: how the byte order `endian` is spelled when the cstruct object is created ('@', '=' native; '!' network)."""
    st = build(seq, context)
    text = render(st)
    cfg = Cfg(endian=endian, align=align)
    case = {"seq": [list(x) for x in seq], "context": context, "endian": endian, "align": align}
    if spelling:
        case["spelling"] = spelling
    kinds = "/".join(f"{s}:{w}" for s, w in seq)
    stypes = sorted({s for s, _ in seq})

    def viol(kind, detail, reader=None, inp=None):
        feats = {"endian": endian, "align": align, "context": context, "reader": reader, "storage": "+".join(stypes), "nbits": len(seq),
                 "mixed": len(stypes) > 1, "widths": kinds}
        c = dict(case)
        if inp is not None:
            c["input"] = inp.data.hex() if hasattr(inp, "data") else inp
        res.violations.append(Violation(kind, f"{kind}|align={align}|{context}|{'+'.join(stypes)}", c, f"{text!r} {endian} align={align} " + detail, feats))

    try:
        offs, size, al = layout(st, cfg)
        reject = False
    except RefReject:
        reject = True
    L = sc.Loaded(text, spelling or endian, align)
    res.transitions += 2
    res.evaluations += 1
    if reject:
        res.extra["straddle_definitions"] += 1
        res.nontrivial += 1
        res.states += 1
        for compiled, T in L.T.items():
            viol("straddle:accepted", f"definition with a straddling bit-field was accepted (compiled={compiled}, size={T.size})", "compiled" if compiled else "interpreted")
        return
    for compiled, e in L.err.items():
        viol("load:raises", f"compiled={compiled}: {impl.exc_sig(e)} {e!r}", "compiled" if compiled else "interpreted")
    if not L.T:
        return
    for compiled, T in L.T.items():
        if T.size != size or (align and (T.alignment or 1) != al):
            viol("layout:size", f"size/alignment {T.size}/{T.alignment} model {size}/{al}", "compiled" if compiled else "interpreted")
        # unit offsets: the first field of every unit carries the unit's offset
        for f, o in zip(st.fields, offs):
            if isinstance(o, tuple) and o[4]:
                got = T.fields[f.name].offset
                if got != o[1]:
                    viol("layout:unit-offset", f"field {f.name}: unit offset {got} model {o[1]}", "compiled" if compiled else "interpreted")
    # ---- reading: unit contents
    base = bytearray((i * 37 + 0x41) % 256 for i in range(64))
    if context.startswith("dyn"):
        idx = 0 if context == "dyn-before" else None
    info: dict = {}
    probe = bytes(base)
    if "dyn" in context:
        # n0 = 2 -> two bytes of dynamic data
        pos_n0 = [i for i, f in enumerate(st.fields) if f.name == "n0"][0]
        # find byte offset of n0 via the model (static up to there)
        o_n0 = offs[pos_n0]
        if isinstance(o_n0, int):
            base[o_n0] = 2
        probe = bytes(base)
    try:
        _, _, _ = decode_with_mask(st, probe, cfg, info=info)
    except Exception as e:  # noqa: BLE001
        raise AssertionError(f"model cannot decode probe for {text!r}: {e!r}") from e
    units = info["units"]
    ins = []
    full8 = tier == "thorough" or len(seq) <= 2
    for ui, (upos, usz) in enumerate(units):
        for pat in unit_patterns(usz, full8):
            d = bytearray(base)
            d[upos : upos + usz] = pat.to_bytes(usz, cfg.bo)
            ins.append(sc.model_decode(st, bytes(d), cfg, f"unit{ui}:{pat:#x}"))
    if "dyn" in context and isinstance(o_n0, int):
        # other lengths of the dynamic member: the units behind it move (and, aligned, are re-aligned at run time)
        for n0 in (1, 0, 3):
            b2 = bytearray(base)
            b2[o_n0] = n0
            info2: dict = {}
            decode_with_mask(st, bytes(b2), cfg, info=info2)
            for ui, (upos, usz) in enumerate(info2["units"]):
                for pat in (0, (1 << (8 * usz)) - 1, int.from_bytes(bytes(range(0x81, 0x81 + usz)), "big"), *(1 << i for i in range(0, 8 * usz, 3))):
                    d = bytearray(b2)
                    d[upos : upos + usz] = pat.to_bytes(usz, cfg.bo)
                    ins.append(sc.model_decode(st, bytes(d), cfg, f"n0={n0}:unit{ui}:{pat:#x}"))
    res.nontrivial += len(ins)

    def v2(kind, detail, reader, inp):
        viol(kind, detail, reader, inp)

    _conf.conform(L, ins, res, v2)
    # range of the parsed values (0 <= v < 2^bits) is implied by equality with the model's slices; non-overlap by the single-bit patterns
    # ---- writing: constructed values
    bitfields = [f for f in st.fields if f.bits]
    combos = itertools.product(*[write_values(f.bits) for f in bitfields])
    T = L.T[False] if False in L.T else L.T[True]
    cs = L.cs[False] if False in L.T else L.cs[True]
    for combo in itertools.islice(combos, 0, 81 if tier == "quick" else 1024):
        vals = {}
        for f in st.fields:
            if f.bits:
                vals[f.name] = combo[bitfields.index(f)]
            elif f.name == "n0":
                vals["n0"] = 2
            elif f.name == "d":
                vals["d"] = b"xy"
            elif f.name == "vd":
                vals["vd"] = None
            elif f.name == "z":
                vals["z"] = []
            elif f.name in ("h", "m", "t"):
                vals[f.name] = 0x5A if f.type.size == 1 else 0x0102 if f.type.size == 2 else 0x01020304
            elif f.name == "s":
                vals["s"] = {"p": 7, "q": 9}
        expect_bytes = codec.encode_struct(st, vals, cfg)
        exp_val, exp_end, mask = decode_with_mask(st, expect_bytes, cfg)
        res.evaluations += 1
        res.states += 1
        res.transitions += 2
        try:
            obj = impl.to_impl(cs, st, vals, T)
            out = obj.dumps()
        except Exception as e:  # noqa: BLE001
            viol("write:raises", f"values={vals}: {impl.exc_sig(e)} {e!r}", "writer", str(vals))
            continue
        ok = len(out) == len(expect_bytes) and all(((out[i] ^ expect_bytes[i]) & mask[i]) == 0 and (out[i] & ~mask[i] & 0xFF) == 0 for i in range(len(out)))
        if not ok:
            viol("write:bytes", f"values={vals}: dumps={out.hex()} model={expect_bytes.hex()} mask={mask.hex()}", "writer", str(vals))
            continue
        for compiled, TT in L.T.items():
            try:
                back = impl.norm(TT(io.BytesIO(out)))
            except Exception as e:  # noqa: BLE001
                viol("write:reparse-raises", f"values={vals} dumps={out.hex()}: {impl.exc_sig(e)} {e!r}", "compiled" if compiled else "interpreted", str(vals))
                continue
            if not same(back, exp_val):
                viol("write:reparse-differs", f"values={vals} dumps={out.hex()}: reparsed {back} expected {exp_val}", "compiled" if compiled else "interpreted", str(vals))
    # ---- history: the byte AND bit order follow the endianness in effect when the data is processed (flip after loading, flip back)
    other = "<" if endian == ">" else ">"
    hist_in = [bytes(base), bytes((b ^ 0xFF) for b in base)]
    if "dyn" in context and isinstance(o_n0, int):
        hist_in[1] = bytes(b if i == o_n0 else (b ^ 0xFF) for i, b in enumerate(base))
    for compiled, TT in L.T.items():
        reader = "compiled" if compiled else "interpreted"
        try:
            for now in (other, endian):
                L.cs[compiled].endian = now
                cfg2 = Cfg(endian=now, align=align)
                for data in hist_in:
                    exp, end, mask = decode_with_mask(st, data, cfg2)
                    res.evaluations += 1
                    res.transitions += 2
                    try:
                        obj = TT(io.BytesIO(data))
                        got = impl.norm(obj)
                        out = obj.dumps()
                    except Exception as e:  # noqa: BLE001
                        viol("history:raises", f"loaded under {endian!r}, endianness now {now!r}, in={data[:end].hex()}: {impl.exc_sig(e)} {e!r}", reader, data.hex())
                        continue
                    if not same(got, exp):
                        viol("history:value", f"loaded under {endian!r}, endianness now {now!r}, in={data[:end].hex()}: parsed {got}, expected {exp}", reader, data.hex())
                    elif len(out) != end or any((out[i] ^ data[i]) & mask[i] for i in range(end)):
                        viol("history:dump", f"loaded under {endian!r}, endianness now {now!r}, in={data[:end].hex()}: dumps {out.hex()}", reader, data.hex())
        finally:
            L.cs[compiled].endian = spelling or endian
    if len(res.samples) < 2:
        res.samples.append({"definition": text, "endian": endian, "align": align, "context": context, "units": units, "inputs": len(ins)})


def run(job) -> JobResult:
    res = JobResult()
    tier, chunk, ctxs = job
    from ..runner import CaseTimeout, watchdog

    if tier == "spellings":
        # the byte order spelled '@' / '=' (native) or '!' (network) behaves like the order it denotes - for bits as for bytes
        for seq in chunk:
            for context in ctxs:
                if context == "dyn-between" and len(seq) < 2:
                    continue
                for spelling, endian in SPELLINGS.items():
                    for align in (False, True):
                        try:
                            with watchdog(60):
                                check_case(tuple(tuple(x) for x in seq), context, endian, align, res, "quick", spelling=spelling)
                        except CaseTimeout:
                            res.violations.append(Violation("hang", f"hang|{context}", {"seq": [list(x) for x in seq], "context": context, "endian": endian, "align": align, "spelling": spelling}, "case did not finish within 60s"))
        return res
    for seq in chunk:
        for context in ctxs:
            if context in ("u8-between", "dyn-between", "void-between", "zero-array-between", "dyn-adjacent") and len(seq) < 2:
                continue
            for endian in "<>":
                for align in (False, True):
                    try:
                        with watchdog(60):
                            check_case(tuple(tuple(x) for x in seq), context, endian, align, res, tier)
                    except CaseTimeout:
                        res.violations.append(Violation("hang", f"hang|{context}", {"seq": [list(x) for x in seq], "context": context, "endian": endian, "align": align}, "case did not finish within 60s"))
    return res


def replay(case):
    res = JobResult()
    check_case(tuple(tuple(x) for x in case["seq"]), case["context"], case["endian"], case["align"], res, "thorough", spelling=case.get("spelling"))
    return res.violations


def meta(tier):
    return {
        "rule": "case = (sequence of (storage type, width) bit-fields, neighbour context, endian, align, reader, unit content | written values); all "
        "width sequences of length <=3 (thorough 4) per storage type over per-type width alphabets (uint8: all widths), mixed-storage sequences, "
        "8 neighbour contexts; unit contents: all 256 for 8-bit units, single-bit / two-bit / all-ones / counter patterns for wider ones; "
        "dynamic member lengths 0..3 in the dyn contexts; endianness flipped after loading and back (history); straddling sequences must be rejected at load; written values from {0,1,max,1010..} per field (product); non-trivial = every unit-content "
        "input and every straddle definition",
        "bounds": {"max_fields": 3 if tier == "quick" else 4, "storage_types": list(STORAGE), "contexts": list(CONTEXTS)},
        "assumptions": ["values that do not fit their width are outside the statement ('for every value that fits')"],
    }
