"""C11 - union members are coherent views of one byte buffer (explicit-state BFS over member assignments on real objects)."""
from __future__ import annotations

import io
import itertools

from .. import impl
from ..impl import same
from ..refmodel import codec
from ..refmodel.codec import decode, decode_with_mask
from ..refmodel.types import FLOATS, CHAR, INTS, Cfg, TArr, TChar, TEnum, TField, TInt, TPtr, TStruct, layout, render_field, sizeof
from ..runner import JobResult, Violation

ID = "C11"
LEVEL = "model_checking"
TASKS_PER_CHILD = 20

INa = TStruct("ina_t", (TField("a", INTS["uint8"]), TField("b", INTS["uint16"])))  # internal padding when aligned
INb = TStruct("inb_t", (TField("a", INTS["uint8"]), TField("b", INTS["uint32"])))  # 3 bytes of internal padding when aligned
INc = TStruct("inc_t", (TField("h", INTS["uint8"]), TField("i", INa)))  # nested two levels
INp = TStruct("inp_t", (TField("a", INTS["uint16"]), TField("b", INTS["uint16"])))  # no padding
ANs = TStruct("__anon_small", (TField("p", INTS["uint8"]), TField("q", INTS["uint8"])))
ANb = TStruct("__anon_big", (TField("p", INTS["uint32"]), TField("q", INTS["uint32"])))
ANh = TStruct("__anon_hole", (TField("hv", INTS["uint8"]), TField("hw", INTS["uint16"])))  # 4 bytes with a hole at byte 1 when aligned
ANn = TStruct("__anon_nest", (TField("p", INTS["uint8"]), TField("r", INp)))
EU16 = TEnum("EU16", INTS["uint16"], (("A", 1), ("B", 0x0102)))
NU = TStruct("nu_t", (TField("q", INTS["uint16"]), TField("r", TArr(INTS["uint8"], 2))), union=True)  # union nested in a union
SNU = TStruct("snu_t", (TField("k", INTS["uint8"]), TField("v", NU)))  # union nested via a struct
INq = TStruct("inq_t", (TField("c", INTS["uint8"]), TField("d", INTS["uint8"])))
NUS = TStruct("nus_t", (TField("b", INTS["uint16"]), TField("s", INq)), union=True)  # union nested in a union, itself holding a struct
ANc = TStruct("__anon_c", (TField("z", INTS["uint8"]),))  # a second, smaller anonymous struct
ANa = TStruct("__anon_outer2", (TField("op", INTS["uint8"]), TField(None, TStruct("__anon_inner2", (TField("ib", INTS["uint8"]), TField("ic", INTS["uint16"]))))))  # anonymous in anonymous
MEMBERS = [
    ("u8", INTS["uint8"]), ("u16", INTS["uint16"]), ("u32", INTS["uint32"]), ("u64", INTS["uint64"]), ("i24", INTS["int24"]),
    ("a3", TArr(INTS["uint8"], 3)), ("a4", TArr(INTS["uint8"], 4)), ("w2", TArr(INTS["uint16"], 2)), ("c4", TArr(CHAR, 4)), ("e16", EU16),
    ("sa", INa), ("sb", INb), ("sc", INc), ("sp", INp), ("ANs", ANs), ("ANb", ANb), ("ANn", ANn), ("ANh", ANh), ("a8", TArr(INTS["uint8"], 8)), ("ptr", TPtr(INTS["uint8"])),
    ("nu", NU), ("snu", SNU), ("f32", FLOATS["float"]), ("nus", NUS), ("ANc", ANc), ("ANa", ANa),
]


def folded_names(t):
    """Attribute names an anonymous member contributes to its parent (anonymous members of anonymous members fold further)."""
    out = []
    for f in t.fields:
        if f.name is None:
            out += folded_names(f.type)
        else:
            out.append(f.name)
    return out


def read_member(u, n, mt):
    if is_anon(mt):
        return {k: impl.norm(getattr(u, k)) for k in folded_names(mt)}
    return impl.norm(getattr(u, n))


def is_anon(t):
    return isinstance(t, TStruct) and t.name.startswith("__anon")


def named_structs(t, out):
    if isinstance(t, TStruct):
        for f in t.fields:
            named_structs(f.type, out)
        if not is_anon(t) and t not in out:
            out.append(t)
    elif isinstance(t, TArr):
        named_structs(t.elem, out)


def render_union(members, name="U"):
    parts = []
    seen: list = []
    for _, t in members:
        named_structs(t, seen)
    for t in seen:
        parts.append(f"{'union' if t.union else 'struct'} {t.name} {{ " + " ".join(render_field(f) for f in t.fields) + " };")
    if any(t is EU16 for _, t in members):
        parts.append("enum EU16 : uint16 { A = 1, B = 0x0102 };")
    body = []
    for n, t in members:
        if is_anon(t):
            body.append("struct { " + " ".join(render_field(f) for f in t.fields) + " };")
        else:
            body.append(render_field(TField(n, t)))
    parts.append(f"union {name} {{ " + " ".join(body) + " };")
    return "\n".join(parts)


def encode(t, v, cfg):
    if isinstance(t, TStruct):
        offs, size, al = layout(t, cfg)
        out = bytearray(size)  # struct padding written by the library is zero
        for f, o in zip(t.fields, offs):
            b = encode(f.type, v if f.name is None else v[f.name], cfg)
            out[o : o + len(b)] = b
        return bytes(out)
    return codec.encode(t, v, cfg)


def sample(t, k, cfg):
    if isinstance(t, TInt):
        m = (1 << (8 * t.size)) - 1
        if t.signed:
            m >>= 1
        return [(0x0102030405060708 * (k + 1)) & m, m, 0][k % 3]
    if isinstance(t, TEnum):
        return [0x0102, 0x7001, 0][k % 3]
    if t is FLOATS["float"]:
        return [0.1, -0.0, 1.5][k % 3]  # 0.1 is not representable: the member must show what its bytes hold
    if isinstance(t, TPtr):
        return [0x11, (1 << (8 * cfg.ptr.size)) - 1, 0][k % 3]
    if isinstance(t, TArr):
        if isinstance(t.elem, TChar):
            return bytes([0x41 + k + i for i in range(t.count)])
        return [sample(t.elem, k + i, cfg) for i in range(t.count)]
    if isinstance(t, TStruct):
        out = {}
        for i, f in enumerate(t.fields):
            if f.name is None:
                out.update(sample(f.type, k + i, cfg))
            else:
                out[f.name] = sample(f.type, k + i, cfg)
        return out
    raise TypeError(t)


def mkimpl(cs, t, v):
    if isinstance(t, TStruct):
        return getattr(cs, t.name)(**{f.name: mkimpl(cs, f.type, v[f.name]) for f in t.fields})
    if isinstance(t, TEnum):
        return getattr(cs, t.name)(v)
    return v


def ops_for(members, cfg):
    ops = []
    for n, t in members:
        anon = is_anon(t)
        if isinstance(t, TStruct) and t.union:
            for f in t.fields:
                ops.append(((n, f.name), f.type, sample(f.type, 2, cfg)))
                if isinstance(f.type, TStruct):
                    for g in f.type.fields:
                        ops.append(((n, f.name, g.name), g.type, sample(g.type, 3, cfg)))
            continue
        if not anon and not _has_union(t):
            for k in (0, 1):
                ops.append(((n,), t, sample(t, k, cfg)))
            if isinstance(t, TArr) and not isinstance(t.elem, TChar):
                ops.append(((n,), t, ("rmw", 0, sample(t.elem, 2, cfg))))
        if isinstance(t, TStruct) and not anon and not _has_union(t):
            leaves = [f for f in t.fields if not isinstance(f.type, (TStruct, TArr))]
            if len(leaves) >= 2:
                # two assignments through ONE held reference to the nested structure: s = u.m; s.a = x; s.b = y
                ops.append(((n,), t, ("held", [(leaves[0].name, sample(leaves[0].type, 4, cfg)), (leaves[1].name, sample(leaves[1].type, 5, cfg))])))
        if isinstance(t, TStruct):
            for f in t.fields:
                if f.name is None:
                    for g in f.type.fields:
                        ops.append(((g.name,), g.type, sample(g.type, 3, cfg)))
                    continue
                if isinstance(f.type, TStruct):
                    for g in f.type.fields:
                        ops.append((((n, f.name, g.name) if not anon else (f.name, g.name)), g.type, sample(g.type, 3, cfg)))
                    if not anon and not f.type.union:
                        ops.append(((n, f.name), f.type, sample(f.type, 4, cfg)))
                else:
                    ops.append((((n, f.name) if not anon else (f.name,)), f.type, sample(f.type, 2, cfg)))
    return ops


def _has_union(t) -> bool:
    return isinstance(t, TStruct) and (t.union or any(_has_union(f.type) for f in t.fields))


def _offset_of(t, sub, cfg):
    """Byte offset and type of the sub-member reached by the attribute path `sub` inside type t."""
    off = 0
    for name in sub:
        offs, _, _ = layout(t, cfg)
        for f, o in zip(t.fields, offs):
            if f.name == name:
                off += o
                t = f.type
                break
        else:
            raise KeyError(name)
    return off, t


def apply_model(members, buf, path, v, cfg):
    # members that contain a union are updated positionally (the assigned sub-member's bytes are overwritten in place)
    for n, mt in members:
        if not is_anon(mt) and n == path[0] and _has_union(mt):
            off, t = _offset_of(mt, path[1:], cfg)
            eb = encode(t, v, cfg)
            buf[off : off + len(eb)] = eb
            # the library rewrites the whole top-level member: padding inside the member becomes zero
            _, end, m = decode_with_mask(mt, bytes(buf), cfg)
            for i in range(end):
                buf[i] &= m[i]
            return
    for n, mt in members:
        anon = is_anon(mt)
        if not anon and n == path[0]:
            sub = path[1:]
            break
        if anon and path[0] in folded_names(mt):
            sub = path
            break
    else:
        raise KeyError(path)
    cur, _ = decode(mt, bytes(buf), 0, cfg)
    if not sub:
        cur = v
    elif len(sub) == 1:
        cur[sub[0]] = v
    else:
        cur[sub[0]][sub[1]] = v
    eb = encode(mt, cur, cfg)
    # assignment rewrites the member's bytes: for struct members the library writes zero padding inside the member
    buf[0 : len(eb)] = eb


def written_member(members, cfg):
    """The member UnionMetaType._write picks: the largest regular member (first in declaration order among equals), or the
    anonymous struct when it is strictly larger than every regular member / there is no regular member."""
    order = sorted(members, key=lambda m: sizeof(m[1], cfg) or 0, reverse=True)
    anon = None
    for n, t in order:
        if is_anon(t):
            anon = anon or (n, t)
            continue
        if anon is not None and (sizeof(anon[1], cfg) or 0) > (sizeof(t, cfg) or 0):
            return anon
        return (n, t)
    return anon


def lossy_written_member(members, cfg, size) -> bool:
    """Root-cause predicate of known finding S: the member that gets written has padding where another member has data."""
    n, t = written_member(members, cfg)
    probe = b"\xff" * size
    _, _, own = decode_with_mask(t, probe, cfg)
    own = own + bytes(size - len(own))
    allm = bytearray(size)
    for _, mt in members:
        _, _, m = decode_with_mask(mt, probe, cfg)
        for i, b in enumerate(m):
            allm[i] |= b
    return any(allm[i] & ~own[i] & 0xFF for i in range(size))


def opname(op):
    if isinstance(op[2], tuple) and op[2] and op[2][0] == "rmw":
        return f"rmw:{op[0][0]}[{op[2][1]}]={op[2][2]!r}"
    if isinstance(op[2], tuple) and op[2] and op[2][0] == "held":
        return f"s=u.{op[0][0]};" + ";".join(f"s.{fn}={fv!r}" for fn, fv in op[2][1])
    return ".".join(op[0]) + "=" + repr(op[2])[:40]


def explore(members, endian, align, depth, res: JobResult, embed=None):
    cfg = Cfg(endian=endian, align=align)
    text = render_union(members)
    U = TStruct("U", tuple(TField(None if is_anon(t) else n, t) for n, t in members), union=True)
    _, size, al = layout(U, cfg)
    case = {"members": [n for n, _ in members], "endian": endian, "align": align}
    mkinds = "+".join(sorted(n for n, _ in members))

    def issue(kind, d, hist=()):
        c = dict(case)
        c["history"] = [opname(h) for h in hist]
        feats = {"members": mkinds, "align": align, "endian": endian, "has_anon": any(is_anon(t) for _, t in members),
                 "nmembers": len(members), "depth": len(hist), "lossy_written_member": lossy_written_member(members, cfg, size)}
        res.violations.append(Violation(kind, f"{kind}|align={align}|{mkinds}", c, f"{text.splitlines()[-1]!r} {endian} align={align} history={[opname(h) for h in hist]}: " + str(d)[:500], feats))

    from dissect.cstruct import cstruct

    cs = cstruct(endian=endian)
    try:
        cs.load(text, align=align)
    except Exception as e:  # noqa: BLE001
        issue("load:raises", f"{impl.exc_sig(e)} {e!r}")
        return
    res.transitions += 1
    if len(cs.U) != size or (align and (cs.U.alignment or 1) != al):
        issue("layout:size", f"len(U)={len(cs.U)} alignment={cs.U.alignment}, model size {size} alignment {al}")
        return
    # parsing at an arbitrary stream position consumes exactly the union's size
    pat = bytes((i * 29 + 7) % 256 for i in range(size))
    for p in (1, 3, 8):
        st_ = io.BytesIO(b"\x5a" * p + pat + b"\xee\xed")
        st_.seek(p)
        try:
            up = cs.U(st_)
            res.transitions += 1
            res.evaluations += 1
            if st_.tell() != p + size:
                issue("parse:consumed", f"parsing at stream offset {p} left the stream at {st_.tell()}, expected {p + size}")
            else:
                for n, mt in members:
                    exp, _ = decode(mt, pat, 0, cfg)
                    got = read_member(up, n, mt)
                    if not same(got, exp):
                        issue("parse:value-at-offset", f"parsing at stream offset {p}: member {n} = {got}, expected {exp}")
                        break
        except Exception as e:  # noqa: BLE001
            issue("parse:raises-at-offset", f"offset {p}: {impl.exc_sig(e)} {e!r}")
    ops = ops_for(members, cfg)
    inits = [("parsed:pat", bytes((i * 29 + 7) % 256 for i in range(size))), ("parsed:ff", b"\xff" * size), ("default", None)]

    def masks(buf):
        mask = bytearray(size)
        for n, mt in members:
            _, _, m = decode_with_mask(mt, buf, cfg)
            for i, b in enumerate(m):
                mask[i] |= b
        return mask

    def check_state(u, buf, hist, tag):
        ok = True
        for n, mt in members:
            exp, _ = decode(mt, buf, 0, cfg)
            try:
                got = read_member(u, n, mt)
            except Exception as e:  # noqa: BLE001
                issue("member:read-raises", f"{tag}: member {n}: {impl.exc_sig(e)}", hist)
                ok = False
                continue
            if not same(got, exp):
                issue("member:stale", f"{tag}: member {n} = {got}, bytes {buf.hex()} decode to {exp}", hist)
                ok = False
        try:
            dm = u.dumps()
        except Exception as e:  # noqa: BLE001
            issue("dump:raises", f"{tag}: {impl.exc_sig(e)} {e!r}", hist)
            return False
        mask = masks(buf)
        if len(dm) != size:
            issue("dump:length", f"{tag}: {len(dm)} != {size}", hist)
            ok = False
        elif any((dm[i] ^ buf[i]) & mask[i] for i in range(size)):
            issue("dump:bytes", f"{tag}: dumps={dm.hex()} buffer={buf.hex()} mask={bytes(mask).hex()}", hist)
            ok = False
        return ok

    for iname, init in inits:
        seen = set()

        def run(hist):
            try:
                if init is None:
                    u = cs.U()
                    buf = bytearray(size)
                else:
                    s = io.BytesIO(init + b"\xee\xed")
                    u = cs.U(s)
                    if s.tell() != size:
                        issue("parse:consumed", f"parsing consumed {s.tell()} bytes, size {size}")
                    buf = bytearray(init)
            except Exception as e:  # noqa: BLE001
                issue("init:raises", f"{iname}: {impl.exc_sig(e)} {e!r}")
                return None
            for op in hist:
                path, t, v = op
                if isinstance(v, tuple) and v and v[0] == "rmw":
                    # read-modify-write of an array member: arr = u.m; arr[i] = x; u.m = arr   (the very same list object is assigned back)
                    try:
                        arr = getattr(u, path[0])
                        arr[v[1]] = v[2]
                        cur = impl.norm(arr)
                        setattr(u, path[0], arr)
                    except Exception as e:  # noqa: BLE001
                        issue("assign:raises", f"{iname}: rmw {impl.exc_sig(e)} {e!r}", hist)
                        return None
                    apply_model(members, buf, path, cur, cfg)
                    res.transitions += 1
                    continue
                if isinstance(v, tuple) and v and v[0] == "held":
                    try:
                        held = getattr(u, path[0])
                        for fn, fv in v[1]:
                            setattr(held, fn, fv)
                            apply_model(members, buf, (path[0], fn), fv, cfg)
                            res.transitions += 1
                    except Exception as e:  # noqa: BLE001
                        issue("assign:raises", f"{iname}: held reference {impl.exc_sig(e)} {e!r}", hist)
                        return None
                    continue
                apply_model(members, buf, path, v, cfg)
                obj = u
                try:
                    for p in path[:-1]:
                        obj = getattr(obj, p)
                    setattr(obj, path[-1], mkimpl(cs, t, v))
                except Exception as e:  # noqa: BLE001
                    issue("assign:raises", f"{iname}: {impl.exc_sig(e)} {e!r}", hist)
                    return None
                res.transitions += 1
            return u, bytes(buf)

        frontier = [()]
        for d in range(depth + 1):
            nxt = []
            for hist in frontier:
                r = run(hist)
                res.evaluations += 1
                res.traces += 1
                if r is None:
                    continue
                u, buf = r
                ok = check_state(u, buf, hist, iname)
                if ok and hist:
                    # differential: a fresh object parsed from the model's bytes equals the reached object
                    try:
                        fresh = cs.U(buf)
                        if not (fresh == u) or not same(impl.norm(fresh), impl.norm(u)):
                            issue("differential:reached-vs-fresh", f"{iname}: reached {impl.norm(u)} fresh {impl.norm(fresh)}", hist)
                    except Exception as e:  # noqa: BLE001
                        issue("differential:raises", f"{iname}: {impl.exc_sig(e)}", hist)
                key = buf
                if key in seen or not ok:
                    continue
                seen.add(key)
                if hist:
                    res.nontrivial += 1
                if d < depth:
                    for op in ops:
                        nxt.append(hist + (op,))
            frontier = nxt
        res.states += len(seen)
    declared = [n for n, t in members if not is_anon(t)]
    got_order = [f._name for f in cs.U.__fields__ if not f._name.startswith("__anonymous")]
    if got_order != declared:
        issue("fields:reordered", f"after parsing/assigning/dumping, the union's fields are {got_order}, declared {declared}")
    first = [(n, t) for n, t in members][0]
    if not is_anon(first[1]) and not _has_union(first[1]) and not isinstance(first[1], TStruct) and not (isinstance(first[1], TArr) and isinstance(first[1].elem, TChar)):
        try:
            v = sample(first[1], 1, cfg)
            u = cs.U(mkimpl(cs, first[1], v))
            buf = bytearray(size)
            apply_model(members, buf, (first[0],), v, cfg)
            res.evaluations += 1
            check_state(u, bytes(buf), (((first[0] + "(positional)",), first[1], v),), "positional")
        except Exception as e:  # noqa: BLE001
            issue("construct:raises", f"U(<first member>): {impl.exc_sig(e)} {e!r}")
    # keyword construction: first given member rebuilds the union
    for n, mt in members:
        if is_anon(mt) or _has_union(mt):
            continue
        v = sample(mt, 1, cfg)
        try:
            u = cs.U(**{n: mkimpl(cs, mt, v)})
            buf = bytearray(size)
            apply_model(members, buf, (n,), v, cfg)
            res.evaluations += 1
            res.states += 1
            check_state(u, bytes(buf), ((("kw:" + n,), mt, v),), "kwargs")
        except Exception as e:  # noqa: BLE001
            issue("construct:raises", f"U({n}=...): {impl.exc_sig(e)} {e!r}")
    if len(res.samples) < 2:
        res.samples.append({"union": text.splitlines()[-1], "endian": endian, "align": align, "ops": [opname(o) for o in ops[:6]], "size": size})


def embedded(tier) -> JobResult:
    """Union embedded in a struct (between two uint8) and as array element: size/consumption and coherence after assignment."""
    from dissect.cstruct import cstruct

    res = JobResult()
    picks = [[MEMBERS[1], MEMBERS[5]], [MEMBERS[2], MEMBERS[10]], [MEMBERS[14], MEMBERS[2]], [MEMBERS[3], MEMBERS[11]], [MEMBERS[4], MEMBERS[8]]]
    for members in picks:
        for endian in "<>":
            for align in (False, True):
                cfg = Cfg(endian=endian, align=align)
                U = TStruct("U", tuple(TField(None if is_anon(t) else n, t) for n, t in members), union=True)
                _, usize, ual = layout(U, cfg)
                text = render_union(members) + "\nstruct S { uint8 h; U u; uint8 t; U arr[2]; uint8 z; };"
                S = TStruct("S", (TField("h", INTS["uint8"]), TField("u", U), TField("t", INTS["uint8"]), TField("arr", TArr(U, 2)), TField("z", INTS["uint8"])))
                offs, ssize, _ = layout(S, cfg)
                for compiled in (False, True):
                    cs = cstruct(endian=endian)
                    cs.load(text, align=align, compiled=compiled)
                    res.transitions += 1
                    res.evaluations += 1
                    res.states += 1
                    res.nontrivial += 1
                    case = {"embedded": [n for n, _ in members], "endian": endian, "align": align, "compiled": compiled}
                    feats = {"align": align, "lossy_written_member": lossy_written_member(members, cfg, usize)}
                    data = bytes((i * 31 + 5) % 256 for i in range(ssize))
                    got_offs = [cs.S.fields[f.name].offset for f in S.fields]
                    if len(cs.S) != ssize or got_offs != offs:
                        res.violations.append(Violation("embedded:layout", "embedded:layout", case, f"{text!r}: size {len(cs.S)} offsets {got_offs}; model {ssize} {offs}"))
                        continue
                    st = io.BytesIO(data + b"\x01\x02")
                    try:
                        v = cs.S(st)
                    except Exception as e:  # noqa: BLE001
                        res.violations.append(Violation("embedded:parse-raises", "embedded:parse-raises", case, f"{text!r}: {impl.exc_sig(e)} {e!r}"))
                        continue
                    exp, end = decode(S, data, 0, cfg)
                    if st.tell() != end or not same(impl.norm(v), exp):
                        res.violations.append(Violation("embedded:value", "embedded:value", case, f"{text!r} in={data.hex()}: {impl.norm(v)}@{st.tell()} model {exp}@{end}"))
                        continue
                    out = v.dumps()
                    _, _, mask = decode_with_mask(S, data, cfg)
                    if len(out) != ssize or any((out[i] ^ data[i]) & mask[i] for i in range(ssize)):
                        res.violations.append(Violation("embedded:dump", "embedded:dump", case, f"{text!r} in={data.hex()} out={out.hex()} mask={mask.hex()}", feats))
    res.samples.append({"embedded": "struct S { uint8 h; U u; uint8 t; U arr[2]; uint8 z; } for 5 unions x endian x align x reader"})
    return res


def offset_unions(tier) -> JobResult:
    """Unions built through the API with members at non-zero offsets (add_field(..., offset=k)): only there is the offset
    arithmetic of _rebuild / _read_fields reachable."""
    from dissect.cstruct import cstruct

    res = JobResult()
    for endian in "<>":
        cfg = Cfg(endian=endian)
        for k1, k2 in itertools.product((0, 1, 2, 4), repeat=2):
            cs = cstruct(endian=endian)
            from dissect.cstruct import Field

            U = cs._make_union("OU", [Field("a", cs.uint32, offset=0), Field("b", cs.uint16, offset=k1), Field("c", cs.uint8[2], offset=k2)])
            # size: the implementation defines size as the largest member (offsets are a library extension): only coherence is checked
            size = len(U)
            layout_m = [("a", INTS["uint32"], 0), ("b", INTS["uint16"], k1), ("c", TArr(INTS["uint8"], 2), k2)]
            if any(o + sizeof(t, cfg) > size for _, t, o in layout_m):
                res.extra["offset_union_member_beyond_size_skipped"] += 1
                continue
            init = bytes((i * 29 + 7) % 256 for i in range(size))
            ops = [("a", INTS["uint32"], 0x01020304), ("b", INTS["uint16"], 0xA1B2), ("c", TArr(INTS["uint8"], 2), [0x55, 0x66]), ("b", INTS["uint16"], 0)]
            for d in range(0, 4 if tier == "quick" else 5):
                for hist in itertools.product(range(len(ops)), repeat=d):
                    u = U(init)
                    buf = bytearray(init)
                    res.evaluations += 1
                    res.traces += 1
                    case = {"offsets": [k1, k2], "endian": endian, "history": [ops[i][0] for i in hist]}
                    bad = False
                    for i in hist:
                        n, t, v = ops[i]
                        off = dict((x[0], x[2]) for x in layout_m)[n]
                        eb = codec.encode(t, v, cfg)
                        buf[off : off + len(eb)] = eb
                        try:
                            setattr(u, n, v)
                            res.transitions += 1
                        except Exception as e:  # noqa: BLE001
                            res.violations.append(Violation("offset-union:assign-raises", "offset-union:assign-raises", case, f"offsets b@{k1} c@{k2} {endian}: {impl.exc_sig(e)} {e!r}"))
                            bad = True
                            break
                    if bad:
                        continue
                    res.states += 1
                    res.nontrivial += 1 if hist else 0
                    for n, t, off in layout_m:
                        exp, _ = decode(t, bytes(buf), off, cfg)
                        got = impl.norm(getattr(u, n))
                        if not same(got, exp):
                            res.violations.append(Violation("offset-union:member-stale", "offset-union:member-stale", case,
                                                            f"offsets b@{k1} c@{k2} {endian} history {case['history']}: member {n} = {got}, buffer {bytes(buf).hex()} gives {exp}"))
                            break
    res.samples.append({"offset_unions": "a:uint32@0, b:uint16@k1, c:uint8[2]@k2 for k1,k2 in {0,1,2,4}; all assignment histories to depth 3/4"})
    return res


def combos(tier):
    ks = (2, 3) if tier == "quick" else (2, 3, 4)
    pool = MEMBERS if tier == "thorough" else MEMBERS
    for k in ks:
        base = pool if k < 4 else [m for m in pool if m[0] in ("u8", "u32", "a3", "c4", "sa", "sb", "sc", "ANs", "ANb", "a8")]
        if k == 3 and tier == "quick":
            base = [m for m in pool if m[0] in ("u8", "u16", "u32", "i24", "a3", "a4", "c4", "e16", "sa", "sb", "sc", "ANs", "ANb", "ANn", "ANh", "a8", "nu", "ANc")]
        for ms in itertools.combinations(base, k):
            if sum(1 for _, t in ms if is_anon(t)) > 2:
                continue
            names = set()
            clash = False
            for n, t in ms:
                fns = folded_names(t) if is_anon(t) else [n]
                for fn in fns:
                    if fn in names:
                        clash = True
                    names.add(fn)
            if not clash:
                yield ms
                if k == 2:
                    yield tuple(reversed(ms))  # declaration order matters for "first largest member"


def jobs(tier):
    out = [("embedded", tier), ("offsets", tier)]
    allc = list(combos(tier))
    for i in range(0, len(allc), 6):
        out.append(("bfs", tier, [[n for n, _ in ms] for ms in allc[i : i + 6]]))
    return out


def run(job) -> JobResult:
    if job[0] == "embedded":
        return embedded(job[1])
    if job[0] == "offsets":
        return offset_unions(job[1])
    _, tier, chunk = job
    res = JobResult()
    byname = dict(MEMBERS)
    depth = 2 if tier == "quick" else 3
    for names in chunk:
        ms = tuple((n, byname[n]) for n in names)
        for endian in "<>":
            for align in (False, True):
                explore(ms, endian, align, depth if len(ms) < 4 else 2, res)
    return res


def replay(case):
    if "embedded" in case:
        return embedded("thorough").violations
    if "offsets" in case:
        return [v for v in offset_unions("thorough").violations if v.case == case]
    res = JobResult()
    byname = dict(MEMBERS)
    ms = tuple((n, byname[n]) for n in case["members"])
    explore(ms, case["endian"], case["align"], 3, res)
    want = case.get("history")
    return [v for v in res.violations if want is None or v.case.get("history") == want] or res.violations


def meta(tier):
    return {
        "rule": "explicit-state BFS on real union objects: state = the model's byte buffer (a union value is its bytes); initial states {parsed from 2 "
        "patterns, default}; transitions = every assignment u.m = v (2 values per member), u.s.f = v through nested structs (two levels, also inside a nested union), two "
        "assignments through one held reference (s = u.m; s.a = x; s.b = y), u.f = v through anonymous folding (one or two anonymous structs, anonymous inside anonymous); invariant after every transition: every member equals decode(member, buffer), dumps equals the buffer at "
        "every bit that is data in some member, and a fresh object parsed from the buffer equals the reached one; unions of 2-3 members (thorough "
        "4) out of 26 member types x endian x packed/aligned, both declaration orders for pairs; plus unions embedded in structs/arrays and "
        "API-built unions with members at non-zero offsets; non-trivial = states reached by at least one assignment",
        "bounds": {"members_per_union": [2, 3] if tier == "quick" else [2, 3, 4], "depth": 2 if tier == "quick" else 3},
        "assumptions": ["element-wise mutation of an array member is not an assignment to a member", "bits that are padding in every member are ignored"],
    }
