"""Shared case routine of C01 (value round-trip) and C02 (byte fidelity)."""
from __future__ import annotations

import io

from .. import impl
from .. import structcase as sc
from ..gen import defs
from ..impl import same
from ..refmodel.types import INTS, Cfg, RefReject
from ..runner import JobResult, Violation


import sys as _sys

NATIVE = "<" if _sys.byteorder == "little" else ">"


def lib_eq(a, b) -> bool:
    try:
        return bool(a == b)
    except Exception:  # noqa: BLE001
        return False


def check_case(mode: str, names, endian, align, res: JobResult, tier="quick", only_input=None):
    st, text = sc.build(names)
    cfg = Cfg(endian=endian, align=align)
    case = sc.case_json(names, endian, align)
    try:
        ins = sc.inputs(st, cfg, dev=1, limit=(10 if mode == "C01" else 14) if tier == "quick" else 32)
    except RefReject:
        res.extra["model_rejects"] += 1
        return
    L = sc.Loaded(text, endian, align)
    res.transitions += 2
    eof_tail = sc.has_eof_tail(st)

    def viol(kind, detail, reader, inp=None, **kw):
        feats = sc.features(names, endian, align, reader, **kw)
        c = dict(case)
        c["reader"] = reader
        if inp is not None:
            c["input"] = inp.data.hex()
            c["label"] = inp.label
        res.violations.append(Violation(kind, f"{kind}|align={align}|{reader}|{sc.cluster_tail(names)}", c, f"{text!r} {endian} " + detail, feats))

    for compiled in (False, True):
        reader = "compiled" if compiled else "interpreted"
        if compiled in L.err:
            # a definition the model accepts must load (C06 reports straddle acceptance; here: layout computation crashes)
            if mode == "C01" and not compiled:
                e = L.err[compiled]
                viol("load:raises", f"{impl.exc_sig(e)} {e!r}", reader, exc=impl.exc_sig(e))
            continue
        T = L.T[compiled]
        cs = L.cs[compiled]
        seen = set()
        for inp in ins:
            if inp.data in seen:
                continue
            seen.add(inp.data)
            if mode == "C01" and compiled and tier == "quick" and inp.label.startswith("raw:") and inp.label != "raw:0":
                continue
            if only_input is not None and inp.data.hex() != only_input:
                continue
            if inp.status != "ok":
                res.extra["inputs_" + inp.status] += 1
                continue
            res.evaluations += 1
            res.states += 1
            o = sc.parse(T, inp.data)
            res.transitions += 1
            res.traces += 1
            if not o.ok:
                if mode == "C02":
                    viol("parse:raises-on-accepted-input", f"in={inp.data[:40].hex()}: {o.sig} {o.exc!r}; model={inp.value}", reader, inp, exc=o.sig)
                continue
            if mode == "C02":
                _c02(inp, o, T, viol, reader, res)
                if inp.label == "base" and not eof_tail:
                    _c02_cuts(inp, o, T, viol, reader, res)
            else:
                _c01_parsed(inp, o, T, viol, reader, res, eof_tail)
        if mode == "C02" and eof_tail:
            # stray bytes behind the last whole element of an [EOF] array: if such an input is accepted, the dump still has exactly the consumed length
            b0 = next((i for i in ins if i.status == "ok" and i.label == "base" and (only_input is None or i.data.hex() == only_input)), None)
            if b0 is not None:
                for extra in (b"\x81", b"\x81\x82", b"\x81\x82\x83", b"\x81\x82\x83\x84\x85"):
                    o = sc.parse(T, b0.data + extra)
                    res.evaluations += 1
                    res.transitions += 1
                    if not o.ok:
                        continue
                    try:
                        out = o.obj.dumps()
                    except Exception as e:  # noqa: BLE001
                        viol("eof-tail:dump-raises", f"in={(b0.data + extra).hex()} parsed to {o.value} but dumps raises {impl.exc_sig(e)}", reader, b0)
                        break
                    if len(out) != o.tell:
                        viol("eof-tail:dump-length", f"in={(b0.data + extra).hex()} ({len(extra)} stray bytes behind the last whole element): consumed {o.tell}, dumped {len(out)} bytes", reader, b0)
                        break
        # history: the byte order is the one in effect when data is processed - switch it on the loaded object, check the same bytes under
        # the other order, switch back and check again (anything cached per type under one order must not leak into the other)
        base = next((i for i in ins if i.status == "ok" and i.label == "base" and (only_input is None or i.data.hex() == only_input)), None)
        if base is not None:
            other = "<" if endian == ">" else ">"
            try:
                for now in (other, "@", "!", "=", endian):  # incl. the other spellings the library accepts: native ('@', '=') and network ('!')
                    cs.endian = now
                    order = now if now in "<>" else (">" if now == "!" else NATIVE)
                    try:
                        inp2 = sc.model_decode(st, base.data, Cfg(endian=order, align=align), f"endian-history:{now}")
                    except RefReject:
                        continue
                    if inp2.status != "ok":
                        continue
                    res.evaluations += 1
                    res.transitions += 2
                    o = sc.parse(T, inp2.data)
                    if not o.ok:
                        if mode == "C02":
                            viol("history:parse-raises", f"loaded under {endian!r}, byte order now {now!r}, in={inp2.data[:40].hex()}: {o.sig} {o.exc!r}; model={inp2.value}", reader, base, exc=o.sig)
                        continue
                    n0 = len(res.violations)
                    if mode == "C02":
                        _c02(inp2, o, T, viol, reader, res)
                    else:
                        _c01_parsed(inp2, o, T, viol, reader, res, eof_tail)
                    for v in res.violations[n0:]:
                        v.kind = "history:" + v.kind
                        v.cluster = "history:" + v.cluster
                        v.detail = f"[loaded under {endian!r}, byte order switched to {now!r}] " + v.detail
                        v.case["input"] = base.data.hex()
            finally:
                cs.endian = endian
        if mode == "C01" and (not compiled or False in L.err):
            # construction and writing do not depend on the reader: constructed values are checked once per definition
            for inp in ins:
                if inp.vals is None or inp.status != "ok":
                    continue
                if only_input is not None and inp.data.hex() != only_input:
                    continue
                _c01_constructed(st, inp, T, cs, viol, reader, res, eof_tail)
    if len(res.samples) < 3 and ins:
        res.samples.append({"definition": text, "endian": endian, "align": align, "input": ins[0].data[:32].hex(), "model_value": repr(ins[0].value)[:200], "mask": (ins[0].mask or b"")[:32].hex()})


def _c02(inp, o, T, viol, reader, res):
    hexin = inp.data[: max(inp.consumed, 1) + 4].hex()
    if not same(o.value, inp.value):
        viol("model:value", f"in={hexin}: parsed={o.value} model={inp.value}", reader, inp)
        return
    if o.tell != inp.consumed:
        viol("model:consumed", f"in={hexin}: consumed={o.tell} model={inp.consumed}", reader, inp)
        return
    try:
        out = o.obj.dumps()
        res.transitions += 1
    except Exception as e:  # noqa: BLE001
        viol("dump:raises", f"in={hexin}: {impl.exc_sig(e)} {e!r}", reader, inp, exc=impl.exc_sig(e))
        return
    if len(out) != o.tell:
        viol("dump:length", f"in={hexin}: consumed {o.tell}, dumped {len(out)}: {out.hex()}", reader, inp)
        return
    if not inp.canonical:
        res.extra["noncanonical_skipped"] += 1
        return
    mask = inp.mask
    nontriv = False
    for i in range(o.tell):
        m = mask[i]
        if m != 0xFF:
            nontriv = True
        if (out[i] ^ inp.data[i]) & m:
            viol("dump:data-bit-changed", f"byte {i}: in={hexin} out={out.hex()} mask={mask.hex()}", reader, inp)
            return
        if out[i] & ~m & 0xFF:
            viol("dump:padding-nonzero", f"byte {i}: in={hexin} out={out.hex()} mask={mask.hex()}", reader, inp)
            return
    if nontriv:
        res.nontrivial += 1


def _c02_cuts(inp, full, T, viol, reader, res):
    """Every input on which parsing succeeds - including a truncated one (cut inside trailing padding): dumps() has exactly the
    consumed length and the value is the full input's value."""
    n = min(inp.consumed, len(inp.data), 48)
    for k in range(n):
        o = sc.parse(T, inp.data[:k])
        res.transitions += 1
        if not o.ok:
            continue
        res.evaluations += 1
        try:
            out = o.obj.dumps()
        except Exception as e:  # noqa: BLE001
            viol("cut:dump-raises", f"in={inp.data[:k].hex()} (cut {k}/{inp.consumed}) parsed to {o.value} but dumps raises {impl.exc_sig(e)}", reader, inp)
            return
        if len(out) != o.tell:
            viol("cut:dump-length", f"in={inp.data[:k].hex()} (cut {k}/{inp.consumed}): consumed {o.tell}, dumped {len(out)} bytes {out.hex()}", reader, inp)
            return
        if o.tell > k and any(inp.mask[i] for i in range(k, min(o.tell, len(inp.mask)))):
            viol("cut:consumed-beyond-input", f"in={inp.data[:k].hex()} (cut {k}/{inp.consumed}): parse returned {o.value} claiming {o.tell} bytes although data bytes are missing", reader, inp)
            return


def _roundtrip(v, T, viol, reader, inp, res, eof_tail, origin: str):
    """p = dumps(v); T(p) == v; consumes exactly len(p)."""
    try:
        p = T.dumps(v)
        if inp is None or inp.label in ("base", "raw:0"):
            p2 = v.dumps()
            p3 = bytes(v)
            s = io.BytesIO()
            T.write(s, v)
            p4 = s.getvalue()
            res.transitions += 4
        else:
            p2 = p3 = p4 = p
            res.transitions += 1
    except Exception as e:  # noqa: BLE001
        viol(f"{origin}:dump-raises", f"value={impl.norm(v)}: {impl.exc_sig(e)} {e!r}", reader, inp, exc=impl.exc_sig(e))
        return
    if not (p == p2 == p3 == p4):
        viol(f"{origin}:dump-forms-differ", f"{p.hex()} {p2.hex()} {p3.hex()} {p4.hex()}", reader, inp)
        return
    stream = io.BytesIO(p + (b"" if eof_tail else sc.SENTINEL))
    try:
        v2 = T(stream)
        res.transitions += 1
    except Exception as e:  # noqa: BLE001
        viol(f"{origin}:reparse-raises", f"value={impl.norm(v)} dumped={p.hex()}: {impl.exc_sig(e)} {e!r}", reader, inp, exc=impl.exc_sig(e))
        return
    nv, nv2 = impl.norm(v), impl.norm(v2)
    if "nan" in repr(nv):
        res.extra["nan_skipped"] += 1
        return
    if stream.tell() != len(p):
        viol(f"{origin}:reparse-consumed", f"value={nv} dumped={p.hex()} ({len(p)} bytes) but reparse consumed {stream.tell()}", reader, inp)
    elif not same(nv, nv2):
        viol(f"{origin}:reparse-value", f"value={nv} dumped={p.hex()} reparsed={nv2}", reader, inp)
    elif not lib_eq(v2, v) or not lib_eq(v, v2):
        viol(f"{origin}:reparse-not-equal", f"value={nv} dumped={p.hex()}: library == says different", reader, inp)
    else:
        res.nontrivial += 1


def _eof_tail_padded(inp, eof_tail) -> bool:
    """Aligned structure ending in an [EOF] array whose dump carries tail padding: the padding is, by definition of
    [EOF], part of the array's extent on re-parse - outside the round-trip claim (DESIGN 7.17)."""
    return bool(eof_tail and (inp.consumed > len(inp.data) or (inp.vals is not None and not sc.plain_equal_vals(inp.value, inp.vals))))


def _c01_parsed(inp, o, T, viol, reader, res, eof_tail):
    if _eof_tail_padded(inp, eof_tail):
        res.extra["eof_tail_padding_skipped"] += 1
        return
    _roundtrip(o.obj, T, viol, reader, inp, res, eof_tail, "parsed")


def _c01_constructed(st, inp, T, cs, viol, reader, res, eof_tail):
    if _eof_tail_padded(inp, eof_tail):
        return
    try:
        v = impl.to_impl(cs, st, inp.vals, T)
        res.transitions += 1
    except Exception as e:  # noqa: BLE001
        viol("constructed:construct-raises", f"vals={inp.vals}: {impl.exc_sig(e)} {e!r}", reader, inp, exc=impl.exc_sig(e))
        return
    res.evaluations += 1
    res.states += 1
    _roundtrip(v, T, viol, reader, inp, res, eof_tail, "constructed")


LONG_LENGTHS = (0, 1, 63, 64, 127, 128, 255, 256, 257, 300, 511, 512, 513, 1023, 1024, 1025, 4095, 4096, 4097, 65535, 65536, 65537)


def long_values(mode, tier) -> JobResult:
    """Values much longer than anything in the value alphabets (buffer-size boundaries of chunked readers/writers): terminated and counted
    arrays of char / wchar / uint8 / uint16 with every length in LONG_LENGTHS, followed by a field."""
    from dissect.cstruct import cstruct

    res = JobResult()
    lengths = LONG_LENGTHS if tier == "thorough" else [n for n in LONG_LENGTHS if n <= 1025 or n in (4096, 4097, 65536)]
    text = ("struct TC { uint8 h; char s[]; uint32 v; }; struct TW { uint8 h; wchar s[]; uint32 v; }; struct TB { uint8 h; uint8 s[]; uint32 v; }; struct TU { uint8 h; uint16 s[]; uint32 v; };"
            "struct NC { uint32 n; char s[n]; uint32 v; }; struct NW { uint32 n; wchar s[n]; uint32 v; }; struct NU { uint32 n; uint16 s[n]; uint32 v; };")
    for endian in "<>":
        bo = "little" if endian == "<" else "big"
        for compiled in (False, True):
            cs = cstruct(endian=endian)
            cs.load(text, compiled=compiled)
            for n in lengths:
                body = bytes((i % 251) + 1 for i in range(n))
                wide = b"".join(((b % 90) + 33).to_bytes(2, bo) for b in body)
                u16 = b"".join((b + 256).to_bytes(2, bo) for b in body)
                tail = (0x12345678).to_bytes(4, bo)
                cases = {"TC": b"\x11" + body + b"\x00", "TB": b"\x11" + body + b"\x00", "TW": b"\x11" + wide + b"\x00\x00", "TU": b"\x11" + u16 + b"\x00\x00",
                         "NC": n.to_bytes(4, bo) + body, "NW": n.to_bytes(4, bo) + wide, "NU": n.to_bytes(4, bo) + u16}
                for tn, data in cases.items():
                    data += tail
                    res.evaluations += 1
                    res.states += 1
                    res.transitions += 3
                    if n >= 64:
                        res.nontrivial += 1
                    case = {"long": tn, "length": n, "endian": endian, "compiled": compiled}
                    T = getattr(cs, tn)
                    try:
                        st = io.BytesIO(data + b"\xee\xed")
                        v = T(st)
                        if st.tell() != len(data) or int(v.v) != 0x12345678 or len(v.s) != n:
                            res.violations.append(Violation("long:parse", f"long:parse|{tn}", case, f"{tn} {endian} compiled={compiled} with {n} elements: consumed {st.tell()} of {len(data)}, v={int(v.v):#x}, len(s)={len(v.s)}"))
                            continue
                        out = v.dumps()
                        if mode == "C02":
                            if out != data:
                                k = next((i for i in range(min(len(out), len(data))) if out[i] != data[i]), min(len(out), len(data)))
                                res.violations.append(Violation("long:dump", f"long:dump|{tn}", case, f"{tn} {endian} compiled={compiled} with {n} elements: dumps has {len(out)} bytes (input {len(data)}), first difference at byte {k}"))
                        else:
                            st2 = io.BytesIO(out + b"\xee\xed")
                            v2 = T(st2)
                            if st2.tell() != len(out) or not lib_eq(v2, v) or not same(impl.norm(v2), impl.norm(v)):
                                res.violations.append(Violation("long:roundtrip", f"long:roundtrip|{tn}", case, f"{tn} {endian} compiled={compiled} with {n} elements: parse(dumps(v)) consumed {st2.tell()} of {len(out)} or differs from v"))
                    except Exception as e:  # noqa: BLE001
                        res.violations.append(Violation("long:raises", f"long:raises|{tn}", case, f"{tn} {endian} compiled={compiled} with {n} elements: {impl.exc_sig(e)} {e!r}"))
    res.samples.append({"long_values": "terminated / counted arrays of char, wchar, uint8, uint16", "lengths": list(lengths)[-10:]})
    return res


def run(mode, job) -> JobResult:
    if job[0] == "long":
        return long_values(mode, job[1])
    res = JobResult()
    tier, chunk = job
    for names in chunk:
        for endian in "<>":
            for align in (False, True):
                sc.guarded(res, mode, tuple(names), endian, align, lambda: check_case(mode, tuple(names), endian, align, res, tier))
    return res


def replay(mode, case):
    if "long" in case:
        return [v for v in long_values(mode, "thorough").violations if v.case == case]
    res = JobResult()
    check_case(mode, tuple(case["atoms"]), case["endian"], case["align"], res, "thorough", only_input=case.get("input"))
    return res.violations


def jobs(tier, chunk=40):
    return [("long", tier)] + [(tier, c) for c in defs.chunks(defs.space(tier, "main"), chunk)]
