"""C04 - structure layout follows C rules (model + ctypes as oracles); declared size = bytes read = bytes written."""
from __future__ import annotations

import ctypes
import itertools

from .. import impl
from .. import structcase as sc
from ..gen import alphabet as A
from ..gen import defs
from ..refmodel.types import (
    CHAR,
    FLOATS,
    INTS,
    WCHAR,
    Cfg,
    TArr,
    TChar,
    TEnum,
    TField,
    TFloat,
    TInt,
    TPtr,
    TStruct,
    TWchar,
    layout,
    render,
    sizeof,
)
from ..runner import JobResult, Violation
from . import _conf

ID = "C04"
LEVEL = "model_checking"
TASKS_PER_CHILD = 10

UN8 = TStruct("un8_t", (TField("q", INTS["uint64"]), TField("b", TArr(INTS["uint8"], 3))), union=True)
DEEP = TStruct("deep_t", (TField("c", CHAR), TField("arr", TArr(A.NEST2, 2)), TField("t", INTS["uint16"])))


# types created with their fields known up front (inline declarations): interior and tail padding when aligned
ANONP = TStruct("__anon_p", (TField("pa", INTS["uint8"]), TField("pb", INTS["uint32"]), TField("pc", INTS["uint8"])))
ANONU = TStruct("__anon_u", (TField("uq", INTS["uint32"]), TField("ub", TArr(INTS["uint8"], 5))), union=True)
ANONN = TStruct("__anon_n", (TField("na", INTS["uint8"]), TField("ni", ANONP), TField("nb", INTS["uint16"])))


E48 = TEnum("E48", INTS["uint48"], (("A", 1), ("B", 2)))  # enums are aligned like their underlying integer (uint24 -> 4, uint48 -> 8), not to their size
F24 = TEnum("F24", INTS["uint24"], (("P", 1), ("Q", 2)), flag=True)


UN9 = TStruct("un9_t", (TField("a", INTS["uint64"]), TField("b", TArr(INTS["uint8"], 9))), union=True)  # largest member (9) is not a multiple of the alignment (8)
UN5 = TStruct("un5_t", (TField("b", TArr(INTS["uint8"], 5)), TField("a", INTS["uint32"])), union=True)


def layout_atoms():
    out = [A.atom(t) for t in INTS.values()] + [A.atom(t) for t in FLOATS.values()] + [A.atom(CHAR), A.atom(WCHAR), A.atom(A.E16s), A.atom(A.F32)]
    for t in (TArr(INTS["uint8"], 3), TArr(INTS["uint16"], 2), TArr(INTS["uint24"], 2), TArr(INTS["uint32"], 0), TArr(CHAR, 3), TArr(WCHAR, 2),
              TArr(INTS["int128"], 1), TArr(TArr(INTS["uint16"], 3), 2), TArr(A.IN, 2), TArr(A.IN2, 2), TArr(A.NEST2, 2), TArr(INTS["uint64"], 2)):
        out.append(A.atom(t))
    out += [A.atom(A.IN), A.atom(A.IN2), A.atom(A.NEST2), A.atom(A.UN), A.atom(UN8), A.atom(DEEP), A.atom(TPtr(INTS["uint8"])), A.atom(TPtr(A.IN)),
            A.atom(TArr(TPtr(INTS["uint16"]), 2))]
    out += [A.atom(ANONP), A.atom(TArr(ANONP, 2)), A.atom(ANONU), A.atom(ANONN)]
    out += [A.atom(UN9), A.atom(UN5), A.atom(TArr(UN5, 2))]
    out += [A.atom(A.E24), A.atom(E48), A.atom(TArr(A.E24, 2))] + [A.atom(F24)]
    for a in out:
        A.register(a)
    return out


def class_atoms():
    names = ["uint8", "uint16", "uint32", "uint64", "uint24", "uint48", "uint128", "uint8[3]", "in_t", "in2_t", "un_t", "uint8*", "__anon_p", "E24"]
    allat = {a.name: a for a in layout_atoms()}
    return [allat[n] for n in names]


def space(tier):
    L, C = layout_atoms(), class_atoms()
    seen = set()
    kL, kC = (2, 3) if tier == "quick" else (3, 5)
    for gen in (defs.product_defs(L, kL), defs.product_defs(C, kC, kL + 1 if False else 1)):
        for seq in gen:
            nm = defs.names(seq)
            if nm not in seen:
                seen.add(nm)
                yield nm


def jobs(tier):
    return [("pointer-switch", tier)] + [(tier, c) for c in defs.chunks(space(tier), 60 if tier == "quick" else 200)]


# ---------------------------------------------------------------------------------------------- ctypes oracle
_CT = {"int8": ctypes.c_int8, "uint8": ctypes.c_uint8, "int16": ctypes.c_int16, "uint16": ctypes.c_uint16, "int32": ctypes.c_int32,
       "uint32": ctypes.c_uint32, "int64": ctypes.c_int64, "uint64": ctypes.c_uint64, "float": ctypes.c_float, "double": ctypes.c_double,
       "char": ctypes.c_char, "wchar": ctypes.c_uint16}


def to_ctypes(t, packed, cache):
    if isinstance(t, (TInt, TFloat, TChar, TWchar)):
        return _CT.get(t.name)
    if isinstance(t, TEnum):
        return _CT.get(t.base.name)
    if isinstance(t, TPtr):
        return ctypes.c_void_p
    if isinstance(t, TArr):
        e = to_ctypes(t.elem, packed, cache)
        return None if e is None or not isinstance(t.count, int) else e * t.count
    if isinstance(t, TStruct):
        key = (t, packed)
        if key not in cache:
            fields = []
            for i, f in enumerate(t.fields):
                ct = to_ctypes(f.type, packed, cache)
                if ct is None or f.bits:
                    cache[key] = None
                    return None
                fields.append((f.name or f"_anon{i}", ct))
            ns = {"_fields_": fields}
            if packed:
                ns["_pack_"] = 1
            cache[key] = type(t.name, (ctypes.Union if t.union else ctypes.Structure,), ns)
        return cache[key]
    return None


def check_case(names, align, ptr, res: JobResult, tier="quick"):
    seq = [A.by_name(n) for n in names]
    st = A.mk_struct(seq, lead_n0=False)
    cfg = Cfg(endian="<", align=align, ptr=INTS[ptr or "uint64"])
    text = render(st) + "\nstruct P { uint8 probe[sizeof(S)]; uint8 probe2[sizeof(S) * 2 + 1]; };\n#define XS sizeof(S)\n"
    case = {"atoms": list(names), "align": align, "ptr": ptr}
    offs, size, al = layout(st, cfg)

    def viol(kind, detail, reader=None, inp=None):
        feats = sc.features(names, "<", align, reader)
        c = dict(case)
        if inp is not None:
            c["input"] = inp.data.hex()
        res.violations.append(Violation(kind, f"{kind}|align={align}|{sc.cluster_tail(names)}", c, f"{render(st)!r} ptr={ptr} " + detail, feats))

    # oracle 2: a real C ABI implementation agrees with the model (keeps the model honest on every enumerated definition)
    if ptr in (None, "uint64"):
        ct = to_ctypes(st, not align, {})
        if ct is not None:
            res.extra["ctypes_checked"] += 1
            c_offs = [getattr(ct, f.name).offset for f in st.fields]
            if ctypes.sizeof(ct) != size or c_offs != offs or (align and ctypes.alignment(ct) != al):
                raise AssertionError(f"reference model disagrees with ctypes on {render(st)!r} align={align}: model {(size, al, offs)} ctypes {(ctypes.sizeof(ct), ctypes.alignment(ct), c_offs)}")
    for endian in "<>":
        L = sc.Loaded(text, endian, align, ptr)
        res.transitions += 2
        res.evaluations += 1
        res.states += 1
        if align and size != sum(sizeof(f.type, cfg) for f in st.fields) or st.fields and isinstance(st.fields[0].type, TStruct):
            res.nontrivial += 1  # the layout contains padding, or nests another structure
        for compiled, e in L.err.items():
            viol("load:raises", f"{endian} compiled={compiled}: {impl.exc_sig(e)} {e!r}")
        for compiled, T in L.T.items():
            reader = "compiled" if compiled else "interpreted"
            got_offs = [T.fields[f.name].offset for f in st.fields]
            if len(T) != size or T.size != size:
                viol("layout:size", f"{endian} len(T)={len(T)} model={size}", reader)
            if align and (T.alignment or 1) != al:
                viol("layout:alignment", f"{endian} T.alignment={T.alignment} model={al}", reader)
            if got_offs != offs:
                viol("layout:offsets", f"{endian} offsets={got_offs} model={offs}", reader)
            cs = L.cs[compiled]
            P = cs.P
            n1 = P.fields["probe"].type.num_entries
            n2 = P.fields["probe2"].type.num_entries
            if n1 != size or n2 != size * 2 + 1 or cs.consts.get("XS") != size:
                viol("sizeof:expression", f"{endian} sizeof(S) in expressions gives {n1}, {n2}, #define {cs.consts.get('XS')!r}; model size {size}", reader)
            # nested inside another structure: sizeof of the element type is what arrays and nested members occupy
            try:
                d0 = T().dumps()
                res.transitions += 1
                if len(d0) != size:
                    viol("dump:default-length", f"{endian} len(T().dumps())={len(d0)} model={size}", reader)
            except Exception as e:  # noqa: BLE001
                viol("dump:default-raises", f"{endian} T().dumps(): {impl.exc_sig(e)} {e!r}", reader)
        # bytes consumed by parsing / produced by dumping, value = model decode (the offsets are where fields are *read*)
        ins = [sc.model_decode(st, d[: size + 8] if size + 8 <= len(d) else d + bytes(size + 8 - len(d)), cfg_e(cfg, endian), f"raw:{i}") for i, d in enumerate(sc.values.raw_patterns(160)) if i in (0, 3)]
        ins += sc.inputs(st, cfg_e(cfg, endian), dev=0, raw=False, limit=1)

        def v2(kind, detail, reader, inp):
            viol(kind, f"{endian} " + detail, reader, inp)

        _conf.conform(L, ins, res, v2)
    if len(res.samples) < 2:
        res.samples.append({"definition": render(st), "align": align, "ptr": ptr, "model": {"size": size, "alignment": al, "offsets": offs}})


def cfg_e(cfg, endian):
    return Cfg(endian=endian, align=cfg.align, ptr=cfg.ptr, consts=cfg.consts)


def ptr_widths(names, tier):
    if any("*" in n for n in names):
        return [None, "uint32", "uint16", "uint8"]
    return [None]


def pointer_switch(tier) -> JobResult:
    """The pointer width of a definition is the one configured when it is loaded: switch it on the object between two loads (all ordered pairs)."""
    import itertools as _it

    from dissect.cstruct import cstruct

    res = JobResult()
    widths = ("uint8", "uint16", "uint32", "uint64")
    body = "uint8 a; uint8 *p; uint16 b; uint32 *q[2]; uint8 c;"
    stm = TStruct("M", (TField("a", INTS["uint8"]), TField("p", TPtr(INTS["uint8"])), TField("b", INTS["uint16"]), TField("q", TArr(TPtr(INTS["uint32"]), 2)), TField("c", INTS["uint8"])))
    for w1, w2 in _it.permutations(widths, 2):
        for align in (False, True):
            for compiled in (False, True):
                cs = cstruct(pointer=w1)
                case = {"pointer-switch": [w1, w2], "align": align, "compiled": compiled}
                res.evaluations += 1
                res.states += 1
                res.transitions += 3
                res.nontrivial += 1
                try:
                    cs.load(f"struct A {{ {body} }};", align=align, compiled=compiled)
                    cs.pointer = cs.resolve(w2)
                    cs.load(f"struct B {{ {body} }};", align=align, compiled=compiled)
                    for name, w in (("A", w1), ("B", w2)):
                        offs, size, al = layout(stm, Cfg(endian="<", align=align, ptr=INTS[w]))
                        T = getattr(cs, name)
                        # (the older definition is only asked for its layout: its pointer members do their I/O through the object's current pointer
                        # type, and what a live switch means for definitions that already exist is not specified)
                        got = ([T.fields[f.name].offset for f in stm.fields], len(T), len(T().dumps()) if name == "B" else size)
                        if got != (list(offs), size, size):
                            res.violations.append(Violation("pointer-switch:layout", "pointer-switch:layout", case,
                                f"pointer type {w1}, then switched to {w2}: struct {name} (loaded under {w}) has offsets/size/default dump {got}, C gives {(list(offs), size, size)}"))
                except Exception as e:  # noqa: BLE001
                    res.violations.append(Violation("pointer-switch:raises", "pointer-switch:raises", case, f"pointer type {w1} then {w2}: {impl.exc_sig(e)} {e!r}"))
    res.samples.append({"pointer_switch": "load under w1, set cs.pointer to w2, load again: both structures follow the width in effect when they were loaded"})
    return res


def run(job) -> JobResult:
    if job[0] == "pointer-switch":
        return pointer_switch(job[1])
    res = JobResult()
    tier, chunk = job
    for names in chunk:
        for align in (False, True):
            for ptr in ptr_widths(names, tier):
                sc.guarded(res, ID, tuple(names), "<", align, lambda: check_case(tuple(names), align, ptr, res, tier))
    return res


def replay(case):
    if "pointer-switch" in case:
        return [v for v in pointer_switch("thorough").violations if v.case == case]
    res = JobResult()
    layout_atoms()
    check_case(tuple(case["atoms"]), case["align"], case.get("ptr"), res, "thorough")
    return res.violations


def meta(tier):
    return {
        "rule": "case = (static definition over the fixed-size layout alphabet, packed|aligned, pointer width, endian); compared: len(T)/size, "
        "alignment, every field offset with the reference model - which is itself compared with ctypes (x86-64 SysV) on every definition "
        "expressible in C scalars; sizeof(S) inside array sizes and #define; bytes consumed by parsing, len(T().dumps()), len(T(data).dumps()), "
        "and the parsed values (fields are read where the layout says); non-trivial = aligned-mode definitions",
        "bounds": {"definitions": "<=2 over 42 layout atoms + <=3 over 12 (size,alignment) classes" if tier == "quick" else "<=3 over 42 layout atoms + <=5 over 12 classes", "pointer_widths": [8, 16, 32, 64]},
        "assumptions": ["ctypes of CPython 3.12 on x86-64 as independent C ABI oracle (64-bit pointers only)", "bit-field placement is C06's"],
    }
