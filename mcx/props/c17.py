"""C17 - structure values: field-wise equality, consistent hash/bool, construction = assignment, local assignment."""
from __future__ import annotations

import itertools

from .. import impl
from ..impl import same
from ..refmodel import codec
from ..refmodel.codec import decode_with_mask
from ..refmodel.types import CHAR, FLOATS, INTS, Cfg, TArr, TEnum, TField, TPtr, TStruct, layout, render
from ..runner import JobResult, Violation

ID = "C17"
LEVEL = "model_checking"
TASKS_PER_CHILD = 6

NT = TStruct("nt_t", (TField("x", INTS["uint8"]), TField("y", INTS["uint16"])))
EN = TEnum("En", INTS["uint8"], (("A", 1), ("B", 2)))
NS17 = TStruct("ns17_t", (TField("lo", INTS["uint8"]), TField("hi", INTS["uint8"])))
UNS17 = TStruct("uns17_t", (TField("w", INTS["uint16"]), TField("s", NS17)), union=True)  # a union holding a nested structure (no list member: hashable)
DEEP17 = TStruct("deep17_t", (TField("h", INTS["uint8"]), TField("i", NT)))
UN17 = TStruct("un17_t", (TField("w", INTS["uint16"]), TField("b", TArr(INTS["uint8"], 2))), union=True)

# kind -> (list of TField templates (name suffix, type, bits), values per sub-field [zero, nz1, nz2], always-truthy?)
KINDS = {
    "u8": ([("", INTS["uint8"], None)], [[0, 1, 255]]),
    "u16": ([("", INTS["uint16"], None)], [[0, 0x0102, 1]]),
    "c2": ([("", TArr(CHAR, 2), None)], [[b"\x00\x00", b"ab", b"a\x00"]]),
    "a2": ([("", TArr(INTS["uint8"], 2), None)], [[[0, 0], [1, 2], [0, 1]]]),
    "nest": ([("", NT, None)], [[{"x": 0, "y": 0}, {"x": 1, "y": 2}, {"x": 0, "y": 5}]]),
    "enum": ([("", EN, None)], [[0, 1, 7]]),
    "flt": ([("", FLOATS["float"], None)], [[0.0, 1.5, -0.0]]),
    "bits": ([("a", INTS["uint8"], 4), ("b", INTS["uint8"], 4)], [[0, 5, 15], [0, 15, 1]]),
    "ebits": ([("a", EN, 4), ("b", EN, 4)], [[0, 1, 7], [0, 7, 1]]),  # bit-fields of an enum type: the zero value is the enum's 0, not a plain integer
    "deep": ([("", DEEP17, None)], [[{"h": 0, "i": {"x": 0, "y": 0}}, {"h": 1, "i": {"x": 2, "y": 3}}, {"h": 0, "i": {"x": 0, "y": 9}}]]),  # nested two levels
    "cbits": ([("a", CHAR, 4), ("b", CHAR, 4)], [[0, 5, 15], [0, 15, 1]]),  # bit-fields over a char storage unit (read as integers)
    "anon": ([("", "ANON", None)], [[{"p": 0, "q": 0}, {"p": 3, "q": 4}, {"p": 0, "q": 9}]]),
    "ptr": ([("", TPtr(INTS["uint8"]), None)], [[0, 8, 1]]),
    "arrs": ([("", TArr(NT, 2), None)], [[[{"x": 0, "y": 0}, {"x": 0, "y": 0}], [{"x": 1, "y": 2}, {"x": 3, "y": 4}], [{"x": 0, "y": 0}, {"x": 0, "y": 9}]]]),
    "a2d": ([("", TArr(TArr(INTS["uint8"], 2), 2), None)], [[[[0, 0], [0, 0]], [[1, 2], [3, 4]], [[0, 0], [0, 7]]]]),
    "uns": ([("", UNS17, None)], [[0, 0x0102, 0xFF00]]),
    "un": ([("", UN17, None)], [[0, 0x0102, 0xFF00]]),  # value = the union's member w (little-endian bytes are derived)
}
KIND_LIST = list(KINDS)


def build(kinds, name="T"):
    """-> (TStruct, list of (field name, kind, sub index, anon prefix))"""
    fields = []
    slots = []  # (attribute name, value alphabet, kind, raw-constructor-name or None)
    for i, k in enumerate(kinds):
        tmpl, vals = KINDS[k]
        for si, (suffix, t, bits) in enumerate(tmpl):
            fname = f"f{i}{suffix}"
            if t == "ANON":
                an = TStruct(f"__anon_{i}", (TField(f"f{i}p", INTS["uint8"]), TField(f"f{i}q", INTS["uint16"])))
                fields.append(TField(None, an))
                slots.append((f"f{i}p", [v["p"] for v in vals[si]], k, None))
                slots.append((f"f{i}q", [v["q"] for v in vals[si]], k, None))
            else:
                fields.append(TField(fname, t, bits))
                slots.append((fname, vals[si], k, fname))
    return TStruct(name, tuple(fields)), slots


def mk_impl_value(cs, kind, v):
    if kind == "nest":
        return cs.nt_t(x=v["x"], y=v["y"])
    if kind in ("enum", "ebits"):
        return cs.En(v)
    if kind == "deep":
        return cs.deep17_t(h=v["h"], i=cs.nt_t(x=v["i"]["x"], y=v["i"]["y"]))
    if kind == "un":
        return cs.un17_t(w=v)
    if kind == "uns":
        return cs.uns17_t(w=v)
    if kind == "arrs":
        return [cs.nt_t(x=e["x"], y=e["y"]) for e in v]
    if kind == "a2d":
        return [list(r) for r in v]
    return v


def plain_truthy(kind, v):
    if kind == "un":
        return True  # a union holds a (non-empty) array member
    if kind == "nest":
        return bool(v["x"]) or bool(v["y"])
    if kind == "deep":
        return bool(v["h"]) or bool(v["i"]["x"]) or bool(v["i"]["y"])
    if kind in ("c2", "a2", "arrs", "a2d"):
        return True  # non-empty bytes / list objects are truthy (DESIGN 7.9)
    return bool(v)


def model_vals(slots, choice):
    return {s[0]: s[1][c] for s, c in zip(slots, choice)}


def make_instance(cs, T, slots, choice, how="assign"):
    vals = {s[0]: mk_impl_value(cs, s[2], s[1][c]) for s, c in zip(slots, choice)}
    if how == "assign":
        obj = T()
        for k, v in vals.items():
            setattr(obj, k, v)
        return obj
    raise ValueError(how)


def check_struct(kinds, res: JobResult, tier, align=False, compiled=False, endian="<", pairs=True):
    from dissect.cstruct import cstruct

    st, slots = build(kinds)
    text = render(st)
    cfg = Cfg(endian=endian, align=align)
    cs = cstruct(endian=endian)
    case = {"kinds": list(kinds), "align": align, "compiled": compiled, "endian": endian}

    def issue(kind, d, **kw):
        c = dict(case)
        c.update(kw)
        res.violations.append(Violation(kind, f"{kind}|n={len(slots)}|{'/'.join(sorted(set(kinds)))}", c, f"{text.splitlines()[-1] if text else ''!r} align={align} compiled={compiled}: " + str(d)[:500],
                                        {"nfields": len(slots), "kinds": "/".join(kinds), "align": align, "compiled": compiled}))

    try:
        cs.load(text, compiled=compiled, align=align)
        cs2 = cstruct(endian=endian)
        cs2.load(text, compiled=compiled, align=align)
    except Exception as e:  # noqa: BLE001
        issue("load:raises", f"{impl.exc_sig(e)} {e!r}")
        return
    T = cs.T
    res.transitions += 2
    n = len(slots)
    hashable = not any(s[2] in ("a2", "un", "arrs", "a2d") for s in slots)  # list-valued fields (and unions holding one) make an instance unhashable
    raw_names = [f._name for f in T.__fields__]
    # ---- all instances over {zero, nz1, nz2}^n (capped to the deviation-2 ball for large n)
    if n <= 4:
        choices = list(itertools.product(range(3), repeat=n))
    else:
        choices = [tuple(0 for _ in range(n))]
        for i in range(n):
            for c in (1, 2):
                choices.append(tuple(c if j == i else 0 for j in range(n)))
    insts = []
    for ch in choices:
        try:
            obj = make_instance(cs, T, slots, ch)
        except Exception as e:  # noqa: BLE001
            issue("construct:raises", f"choice {ch}: {impl.exc_sig(e)} {e!r}", choice=list(ch))
            return
        mv = model_vals(slots, ch)
        insts.append((ch, obj, mv))
        res.evaluations += 1
        res.states += 1
        res.transitions += n
        # bool
        exp_bool = any(plain_truthy(s[2], mv[s[0]]) for s in slots)
        try:
            if bool(obj) != exp_bool:
                issue("bool", f"values {mv}: bool(instance) = {bool(obj)}, any field truthy = {exp_bool}", choice=list(ch))
        except Exception as e:  # noqa: BLE001
            issue("bool:raises", f"{impl.exc_sig(e)}")
        # dumps = model encoding of exactly these values (data bits), zero elsewhere  -> "exactly the bytes of that field" for any assignment
        try:
            out = obj.dumps()
            enc = codec.encode_struct(st, _enc_vals(st, mv, cfg.bo), cfg)
            _, _, mask = decode_with_mask(st, enc, cfg)
            if len(out) != len(enc) or any(((out[i] ^ enc[i]) & mask[i]) or (out[i] & ~mask[i] & 0xFF) for i in range(len(enc))):
                issue("dumps:not-local", f"values {mv}: dumps {out.hex()}, model {enc.hex()} mask {mask.hex()}", choice=list(ch))
        except Exception as e:  # noqa: BLE001
            issue("dumps:raises", f"values {mv}: {impl.exc_sig(e)} {e!r}", choice=list(ch))
    # ---- all ordered pairs: == iff all fields equal; hash
    if pairs:
        plist = insts if len(insts) <= 81 else insts[:41]
        for (c1, a, m1), (c2, b, m2) in itertools.product(plist, repeat=2):
            res.evaluations += 1
            exp = all(_plain_eq(m1[k], m2[k]) for k in m1)
            try:
                got = a == b
                gne = a != b
            except Exception as e:  # noqa: BLE001
                issue("eq:raises", f"{impl.exc_sig(e)}")
                break
            if got != exp or gne == got:
                issue("eq", f"{m1} == {m2}: library says {got} (!= says {gne}), field-wise {exp}", pair=[list(c1), list(c2)])
                break
            if exp and hashable:
                try:
                    if hash(a) != hash(b):
                        issue("hash", f"equal instances {m1} / {m2} hash differently", pair=[list(c1), list(c2)])
                        break
                except Exception as e:  # noqa: BLE001
                    issue("hash:raises", f"{impl.exc_sig(e)} {e!r}")
                    break
            if exp:
                res.nontrivial += 1
    # ---- other classes with identical field names and values are never equal
    a0 = insts[-1][1]
    b0 = make_instance(cs2, cs2.T, slots, insts[-1][0])
    if a0 == b0 or not (a0 != b0):
        issue("eq:other-class", "instances of same-named classes of two cstruct objects with equal fields compare equal")
    # ---- construction: every positional prefix and every keyword subset = assignment on a default instance
    for ch in ([tuple(1 for _ in range(n)), tuple((i % 2) + 1 for i in range(n))] if n else [()]):
        vals = {s[0]: mk_impl_value(cs, s[2], s[1][c]) for s, c in zip(slots, ch)}
        byraw = _raw_kwargs(cs, T, st, slots, ch)
        names = list(byraw)
        subsets = itertools.chain.from_iterable(itertools.combinations(names, r) for r in range(len(names) + 1)) if len(names) <= 5 else \
            [tuple(names[:k]) for k in range(len(names) + 1)] + [(nm,) for nm in names]
        for sub in subsets:
            res.evaluations += 1
            res.transitions += 1
            try:
                obj = T(**{k: byraw[k] for k in sub})
            except Exception as e:  # noqa: BLE001
                issue("init:kw-raises", f"T(**{list(sub)}): {impl.exc_sig(e)} {e!r}")
                break
            ref = T()
            for k in sub:
                setattr(ref, k, byraw[k])
            if not _same_instance(obj, ref):
                issue("init:kw", f"T({', '.join(sub)}=...) = {impl.norm(obj)}, assignment on a default gives {impl.norm(ref)}", kw=list(sub))
                break
        for k in range(1, len(names) + 1):
            args = [byraw[nm] for nm in names[:k]]
            if k == 1 and isinstance(args[0], (bytes, bytearray, memoryview)):
                continue  # a single bytes argument means "parse"
            res.evaluations += 1
            try:
                obj = T(*args)
            except Exception as e:  # noqa: BLE001
                issue("init:positional-raises", f"T(*{k} args): {impl.exc_sig(e)} {e!r}")
                break
            ref = T()
            for nm in names[:k]:
                setattr(ref, nm, byraw[nm])
            if not _same_instance(obj, ref):
                issue("init:positional", f"T(*first {k}) = {impl.norm(obj)}, assignment on a default gives {impl.norm(ref)}", positional=k)
                break
    # ---- default: unspecified fields take the type's zero value
    z = T()
    zn = impl.norm(z)
    for s in slots:
        if s[2] == "uns":
            if zn.get(s[0]) != {"w": 0, "s": {"lo": 0, "hi": 0}}:
                issue("default:not-zero", f"default instance has {s[0]} = {zn.get(s[0])!r}")
            continue
        if s[2] == "un":
            if zn.get(s[0]) != {"w": 0, "b": [0, 0]}:
                issue("default:not-zero", f"default instance has {s[0]} = {zn.get(s[0])!r}")
            continue
        if not _plain_eq(zn.get(s[0]), s[1][0]) and not (s[2] == "flt" and zn.get(s[0]) == 0.0):
            issue("default:not-zero", f"default instance has {s[0]} = {zn.get(s[0])!r}, zero value {s[1][0]!r}")
    # ---- the zero value of an enum / flag field is a member-like object of that enum, as the parse of zero bytes yields
    import enum as _enum

    try:
        if T.size is not None:
            pz_ = T(bytes(T.size))
            for f in T.__fields__:
                a_, b_ = getattr(z, f._name), getattr(pz_, f._name)
                if isinstance(b_, _enum.Enum) and type(a_) is not type(b_):  # (only for enum / flag fields is the value's class part of its meaning)
                    issue("default:type", f"default instance holds a {type(a_).__name__} in {f._name} ({a_!r}), the instance parsed from zero bytes a {type(b_).__name__} ({b_!r})")
                    break
    except Exception as e:  # noqa: BLE001
        issue("default:type", f"{impl.exc_sig(e)} {e!r}")
    # ---- assigning below field level on a DEFAULT instance (element of an array, field of a nested struct) changes exactly those bytes
    inplace = {"nest": (lambda o, n: setattr(getattr(o, n), "x", 0xAA), lambda v: v.__setitem__("x", 0xAA)),
               "deep": (lambda o, n: setattr(getattr(o, n).i, "x", 0xAA), lambda v: v["i"].__setitem__("x", 0xAA)),
               "a2": (lambda o, n: getattr(o, n).__setitem__(0, 0xAA), lambda v: v.__setitem__(0, 0xAA)),
               "arrs": (lambda o, n: setattr(getattr(o, n)[0], "x", 0xAA), lambda v: v[0].__setitem__("x", 0xAA)),
               "a2d": (lambda o, n: getattr(o, n)[1].__setitem__(0, 0xAA), lambda v: v[1].__setitem__(0, 0xAA))}
    import copy as _copy

    for s_ in slots:
        if s_[2] in inplace:
            d = T()
            mv = {k: _copy.deepcopy(v) for k, v in model_vals(slots, tuple(0 for _ in slots)).items()}  # per-field copies (no aliasing between fields)
            try:
                inplace[s_[2]][0](d, s_[0])
                inplace[s_[2]][1](mv[s_[0]])
                out = d.dumps()
                enc = codec.encode_struct(st, _enc_vals(st, mv, cfg.bo), cfg)
                _, _, mask = decode_with_mask(st, enc, cfg)
                res.evaluations += 1
                if len(out) != len(enc) or any(((out[i] ^ enc[i]) & mask[i]) or (out[i] & ~mask[i] & 0xFF) for i in range(len(enc))):
                    issue("inplace:not-local", f"default instance, in-place assignment inside field {s_[0]} ({s_[2]}): dumps {out.hex()}, expected {enc.hex()}")
                fresh = T()
                if impl.norm(fresh) != impl.norm(T.__call__()) or bool(fresh) != bool(T()) or not same(impl.norm(fresh), impl.norm(z)):
                    issue("inplace:default-changed", f"after an in-place assignment inside field {s_[0]} of one default instance, a new default instance is {impl.norm(fresh)}")
            except Exception as e:  # noqa: BLE001
                issue("inplace:raises", f"field {s_[0]}: {impl.exc_sig(e)} {e!r}")
            # ... and the same for instances constructed in other ways that leave this field unspecified: "unspecified fields take the type's zero value",
            # whatever was done to an instance constructed the same way before
            forms = [("every field passed as None", lambda: T(**{n_: None for n_ in raw_names}))]
            if slots[0][2] in ("u8", "u16") and s_[0] != slots[0][0]:
                forms.append(("one positional value", lambda: T(1)))
                forms.append(("one keyword value", lambda: T(**{slots[0][3]: 1})))
            for fname_, mkf in forms:
                try:
                    ref_ = impl.norm(mkf())
                    d2 = mkf()
                    inplace[s_[2]][0](d2, s_[0])
                    again = impl.norm(mkf())
                    res.evaluations += 1
                    if not same(again, ref_):
                        issue("inplace:default-changed", f"constructed with {fname_}: after an in-place assignment inside the unspecified field {s_[0]} of one instance, the next instance constructed the same way is {again} (first: {ref_})")
                        break
                except Exception as e:  # noqa: BLE001
                    issue("inplace:raises", f"constructed with {fname_}, field {s_[0]}: {impl.exc_sig(e)} {e!r}")
                    break
    # ---- a default instance equals the instance parsed from all-zero bytes; a constructed instance equals the one parsed from its dump
    try:
        size = T.size
        if size is not None:
            pz = T(bytes(size))
            if not (z == pz) or not (pz == z) or (hashable and hash(z) != hash(pz)) or bool(z) != bool(pz):
                issue("eq:default-vs-parsed-zeros", f"T() and T(bytes({size})) differ in ==/hash/bool although all fields are equal: {impl.norm(z)} / {impl.norm(pz)}")
        for ch, obj, mv in insts[:: max(1, len(insts) // 6)]:
            back = T(obj.dumps())
            if "nan" not in repr(mv) and (not (back == obj) or not (obj == back) or (hashable and hash(back) != hash(obj))):
                issue("eq:constructed-vs-parsed", f"an instance with values {mv} and the instance parsed from its dump differ in ==/hash", choice=list(ch))
    except Exception as e:  # noqa: BLE001
        issue("eq:default-vs-parsed-raises", f"{impl.exc_sig(e)} {e!r}")
    # ---- histories: hash / compare / assign (direct, nested, anonymous) in all orders up to depth 3: always equal to a fresh equal instance
    if n and n <= 3:
        _histories(cs, T, st, slots, res, issue, hashable, 3 if tier == "quick" else 4)
    if len(res.samples) < 2:
        res.samples.append({"definition": text, "instances": len(insts), "pairs": len(insts) ** 2 if pairs else 0})


def _histories(cs, T, st, slots, res, issue, hashable, depth):
    ops = [("hash", None, None)]
    for i, s in enumerate(slots[:3]):
        ops.append(("set", i, 1))
        ops.append(("set", i, 2))
        if s[2] == "nest":
            ops.append(("setnested", i, 7))
    for seq in itertools.product(range(len(ops)), repeat=depth):
        obj = T()
        ch = [0] * len(slots)
        nested_over = {}
        hist = []
        for oi in seq:
            kind, i, arg = ops[oi]
            hist.append(f"{kind}({'' if i is None else slots[i][0]}{'' if arg is None else ',' + str(arg)})")
            if kind == "hash":
                if hashable:
                    hash(obj)
            elif kind == "set":
                ch[i] = arg
                nested_over.pop(i, None)
                setattr(obj, slots[i][0], mk_impl_value(cs, slots[i][2], slots[i][1][arg]))
            else:
                getattr(obj, slots[i][0]).x = arg
                nested_over[i] = arg
            res.transitions += 1
        fresh = T()
        for i, s in enumerate(slots):
            v = s[1][ch[i]]
            if i in nested_over:
                v = dict(v)
                v["x"] = nested_over[i]
            setattr(fresh, s[0], mk_impl_value(cs, s[2], v))
        res.evaluations += 1
        res.traces += 1
        res.nontrivial += 1
        bad = None
        try:
            if not (obj == fresh) or not (fresh == obj):
                bad = "not equal to a fresh instance with the same field values"
            elif hashable and hash(obj) != hash(fresh):
                bad = "hash differs from a fresh instance with the same field values"
            elif bool(obj) != bool(fresh) or obj.dumps() != fresh.dumps():
                bad = "bool/dumps differ from a fresh instance with the same field values"
        except Exception as e:  # noqa: BLE001  - ==, hash, bool and dumps of a well-formed instance never raise
            issue("history:raises", f"after {hist}: {impl.exc_sig(e)} {e!r}", history=hist)
            return
        if bad:
            issue("history", f"after {hist}: {bad} ({impl.norm(obj)})", history=hist)
            return


def _same_instance(a, b):
    try:
        return (a == b) and same(impl.norm(a), impl.norm(b)) and a.dumps() == b.dumps()
    except Exception:  # noqa: BLE001
        return False


def _plain_eq(a, b):
    return a == b


def _enc_vals(st, mv, bo="little"):
    out = {}
    for f in st.fields:
        if f.name is None:
            for g in f.type.fields:
                out[g.name] = mv[g.name]
        elif f.type is UN17 or f.type is UNS17:
            out[f.name] = codec.RawUnion(int(mv[f.name]).to_bytes(2, bo))
        else:
            out[f.name] = mv[f.name]
    return out


def _raw_kwargs(cs, T, st, slots, ch):
    """Constructor keyword arguments use raw member names: an anonymous struct member is passed as a whole under its raw name."""
    mv = model_vals(slots, ch)
    out = {}
    for f, implf in zip(st.fields, T.__fields__):
        if f.name is None:
            out[implf._name] = implf.type(**{g.name: mv[g.name] for g in f.type.fields})
        else:
            kind = [s[2] for s in slots if s[0] == f.name][0]
            out[f.name] = mk_impl_value(cs, kind, mv[f.name])
    return out


def creation_orders(tier) -> JobResult:
    """All 24 orders of defining four classes with equal field counts (swapped names / same names): the generated methods come from
    templates cached per field count and are patched with the field names."""
    from dissect.cstruct import cstruct

    res = JobResult()
    defs = {"A": "struct A { uint8 a; uint16 b; };", "B": "struct B { uint16 b; uint8 a; };", "C": "struct C { uint8 a; uint16 b; };", "D": "struct D { uint8 x; uint16 y; };"}
    fields = {"A": ("a", "b"), "B": ("b", "a"), "C": ("a", "b"), "D": ("x", "y")}
    for order in itertools.permutations("ABCD"):
        cs = cstruct()
        for k in order:
            cs.load(defs[k])
            res.transitions += 1
        for k in "ABCD":
            T = getattr(cs, k)
            f1, f2 = fields[k]
            res.evaluations += 1
            res.states += 1
            res.nontrivial += 1
            probs = []
            try:
                x = T(**{f1: 1, f2: 2})
                y = T(**{f1: 1, f2: 2})
                z = T(**{f1: 2, f2: 1})
                w = T(**{f2: 2})
                if not (x == y) or x == z or hash(x) != hash(y) or not bool(x) or bool(T()):
                    probs.append("eq/hash/bool")
                if (getattr(x, f1), getattr(x, f2)) != (1, 2) or (getattr(w, f1), getattr(w, f2)) != (0, 2):
                    probs.append("init")
                if T(1, 2) != x or (getattr(T(1), f1), getattr(T(1), f2)) != (1, 0):
                    probs.append("positional init")
                for k2 in "ABCD":
                    if k2 != k:
                        g1, g2 = fields[k2]
                        if x == getattr(cs, k2)(**{g1: getattr(x, f1) if g1 == f1 else 1, g2: 2 if g2 != f1 else 1}):
                            probs.append(f"equal to an instance of {k2}")
            except Exception as e:  # noqa: BLE001  - constructing, comparing and hashing two-field instances never raises
                probs.append(f"raises {impl.exc_sig(e)} {e!r}")
            if probs:
                res.violations.append(Violation("creation-order", f"creation-order|{k}", {"order": list(order), "class": k}, f"definition order {order}: class {k}: {probs}"))
    res.samples.append({"creation_orders": 24, "classes": defs})
    return res


def field_count_sweep(tier) -> JobResult:
    res = JobResult()
    nmax = 20 if tier == "quick" else 32
    for n in range(0, nmax + 1):
        for pattern in (("u8",), ("u8", "u16", "enum", "nest", "c2", "flt")):
            kinds = tuple(pattern[i % len(pattern)] for i in range(n))
            check_struct(kinds, res, tier, pairs=(n <= 20), compiled=(n % 2 == 0))
    return res


def jobs(tier):
    out = [("orders", tier), ("sweep", tier)]
    kmax = 4
    seqs = []
    for k in range(0, kmax + 1):
        mid = ["u8", "c2", "nest", "enum", "bits", "anon", "un", "arrs", "uns", "cbits", "ebits", "deep"]
        if tier == "thorough":
            pool = KIND_LIST if k <= 3 else mid
        else:
            pool = KIND_LIST if k <= 2 else mid if k == 3 else ["u8", "nest", "bits", "anon", "uns"]
        for ks in itertools.product(pool, repeat=k):
            if sum(1 for x in ks if x == "anon") > 1:
                continue
            seqs.append(ks)
    if tier == "thorough":
        for ks in itertools.product(["u8", "a2", "nest", "flt", "bits", "anon"], repeat=5):
            if sum(1 for x in ks if x == "anon") <= 1:
                seqs.append(ks)
    for i in range(0, len(seqs), 12):
        out.append(("structs", tier, seqs[i : i + 12]))
    return out


def run(job) -> JobResult:
    if job[0] == "orders":
        return creation_orders(job[1])
    if job[0] == "sweep":
        return field_count_sweep(job[1])
    _, tier, chunk = job
    res = JobResult()
    for i, kinds in enumerate(chunk):
        for align in (False, True):
            check_struct(tuple(kinds), res, tier, align=align, compiled=(i % 2 == 0), endian="<" if align else ">")
    return res


def replay(case):
    res = JobResult()
    if "order" in case:
        return creation_orders("thorough").violations
    check_struct(tuple(case["kinds"]), res, "thorough", align=case["align"], compiled=case["compiled"], endian=case.get("endian", "<"))
    return res.violations


def meta(tier):
    return {
        "rule": "every structure of 0-3 fields over 10 field kinds and 4 fields over 6 kinds (thorough: 4 over 10, 5 over 6); kinds: (uint8, uint16, char[2], uint8[2], nested struct, enum, float "
        "incl. -0.0, bit-field pair, anonymous struct, pointer), packed/aligned, both readers: ALL instances over {zero, nz1, nz2} per field and ALL ordered "
        "pairs: == iff same class and all fields equal, equal hashes, bool = any field truthy; every keyword subset and positional prefix = "
        "assignment on a default; defaults are zero values; dumps of every instance = model encoding (assignment is local); all histories of <=3 "
        "operations {hash, assign, assign nested} equal a fresh equal instance; 24 class-creation orders; field-count sweep n=0..20; non-trivial = "
        "equal pairs and histories",
        "bounds": {"fields": f"<=2 over {len(KIND_LIST)} kinds + 3 over 9 + 4 over 5" if tier == "quick" else f"<=3 over {len(KIND_LIST)} kinds + 4 over 9 + 5 over 6", "values_per_field": 3, "history_depth": 3 if tier == "quick" else 4, "sweep": 20 if tier == "quick" else 32},
        "assumptions": ["bool follows Python truthiness of field values (non-empty bytes/list fields are truthy)", "instances with list fields are unhashable"],
    }
