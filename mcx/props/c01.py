"""C01 - value round-trip (parse(dumps(v)) == v, consumes len(dumps(v))) and no silent wrap on write."""
from __future__ import annotations

import io

from .. import impl
from ..runner import JobResult, Violation
from . import _rt

ID = "C01"
LEVEL = "model_checking"
TASKS_PER_CHILD = 6


def jobs(tier):
    return [("overflow", tier)] + _rt.jobs(tier)


def run(job):
    if job[0] == "overflow":
        return overflow_table()
    return _rt.run("C01", job)


def replay(case):
    if case.get("table") == "overflow":
        return [v for v in overflow_table().violations if v.case == case]
    return _rt.replay("C01", case)


INT_TYPES = [("int8", 8, True), ("uint8", 8, False), ("int16", 16, True), ("uint16", 16, False), ("int32", 32, True), ("uint32", 32, False),
             ("int64", 64, True), ("uint64", 64, False), ("int24", 24, True), ("uint24", 24, False), ("int48", 48, True), ("uint48", 48, False),
             ("int128", 128, True), ("uint128", 128, False)]
ENUM_BASES = [("uint8", 8, False), ("int8", 8, True), ("uint16", 16, False), ("int16", 16, True), ("uint32", 32, False), ("int64", 64, True)]


def bad_values(w, signed):
    lo, hi = (-(1 << (w - 1)), (1 << (w - 1)) - 1) if signed else (0, (1 << w) - 1)
    out = []
    for v in (hi + 1, lo - 1, 1 << w, -(1 << w), (1 << (w + 3)) + 5):
        if v not in out:
            out.append(v)
    return out


def overflow_table() -> JobResult:
    res = JobResult()
    for endian in "<>":
        for tname, w, signed in INT_TYPES:
            _overflow_type(res, endian, tname, tname, w, signed, lambda cs, x: x, "")
        for base, w, signed in ENUM_BASES:
            for kw in ("enum", "flag"):
                decl = f"{kw} E : {base} {{ A = 1, B = 2 }};"
                _overflow_type(res, endian, "E", f"{kw}:{base}", w, signed, lambda cs, x: cs.E(x), decl)
        for pt, w in (("uint8", 8), ("uint16", 16), ("uint32", 32), ("uint64", 64)):
            _overflow_type(res, endian, "uint8 *", f"ptr:{pt}", w, False, lambda cs, x: x, "", pointer=pt)
        _overflow_bitfields(res, endian)
    return res


def _overflow_bitfields(res, endian):
    """Bit-fields are fixed-width integer fields too: a value that does not fit its width must be refused, in every position of the unit
    (a silently truncated value also corrupts the neighbouring fields)."""
    from dissect.cstruct import cstruct

    for storage, sbits in (("uint8", 8), ("uint16", 16), ("int16", 16), ("uint32", 32), ("uint24", 24), ("E", 8)):
        for widths in ((4, 4), (1, 7), (3, 3, 2)) if sbits == 8 else ((4, sbits - 4), (sbits - 1, 1), (5, 5, sbits - 10)):
            decl = "enum E : uint8 { A = 1, B = 2 };\n" if storage == "E" else ""
            names = [f"b{i}" for i in range(len(widths))]
            text = decl + "struct B { " + " ".join(f"{storage} {n} : {w};" for n, w in zip(names, widths)) + " uint8 t; };"
            for pos, w in enumerate(widths):
                for x in ((1 << w), (1 << w) + 1, (1 << (w + 1)) - 1, -1, 1 << sbits):
                    cs = cstruct(endian=endian)
                    cs.load(text)
                    res.evaluations += 1
                    res.states += 1
                    res.transitions += 1
                    case = {"table": "overflow", "type": f"bits:{storage}", "endian": endian, "value": str(x), "context": f"widths={list(widths)} field={pos}"}
                    vals = {n: 0 for n in names}
                    try:
                        try:
                            vals[names[pos]] = cs.E(x) if storage == "E" else x
                        except (ValueError, OverflowError, TypeError):
                            res.nontrivial += 1
                            continue
                        if storage == "E":
                            vals = {n: cs.E(v) if isinstance(v, int) and not hasattr(v, "name") else v for n, v in vals.items()}
                        out = cs.B(t=0x7E, **vals).dumps()
                    except Exception:  # noqa: BLE001
                        res.nontrivial += 1
                        continue
                    res.violations.append(
                        Violation("overflow:silently-written", f"overflow|bits:{storage}|{len(widths)}", case,
                                  f"{text!r} {endian} value {x} for {names[pos]} ({w} bits): dumps returned {out.hex()} instead of raising",
                                  {"type": f"bits:{storage}", "context": "bit-field", "endian": endian}))
    res.samples.append({"overflow_table": "bit-fields", "storage": ["uint8", "uint16", "int16", "uint32", "uint24", "enum:uint8"]})


def _overflow_type(res, endian, tname, label, w, signed, wrap, decl, pointer=None):
    from dissect.cstruct import cstruct

    is_ptr = tname.endswith("*")
    fdecl = "uint8 *a" if is_ptr else f"{tname} a"
    text = f"{decl}\nstruct S1 {{ {fdecl}; }};\nunion U1 {{ {fdecl}; uint8 pad; }};\nstruct W1 {{ S1 s[2]; }};\nstruct A2 {{ {fdecl}[2]; }};\nstruct A0 {{ {fdecl}[]; }};"
    for x in bad_values(w, signed):
        for ctx in ("scalar", "arr2", "arr0", "field", "union", "arr-of-struct"):
            cs = cstruct(endian=endian, pointer=pointer)
            cs.load(text)
            res.evaluations += 1
            res.states += 1
            res.transitions += 1
            case = {"table": "overflow", "type": label, "endian": endian, "value": str(x), "context": ctx}
            try:
                try:
                    v = wrap(cs, x)
                except (ValueError, OverflowError, TypeError):
                    res.nontrivial += 1  # rejected when the value object is created
                    continue
                if int(v) != x:
                    # the value object itself is a different number (Python's IntFlag folds negative values into the
                    # mask of known bits when the *object* is created): nothing is altered by writing it - C12's domain
                    res.extra["coerced_at_construction"] += 1
                    continue
                if ctx == "scalar":
                    T = cs.S1.fields["a"].type if is_ptr else getattr(cs, tname)
                    out = T.dumps(v)
                elif ctx == "arr2":
                    out = cs.A2(a=[v, wrap(cs, 1)]).dumps()
                elif ctx == "arr0":
                    out = cs.A0(a=[v]).dumps()
                elif ctx == "field":
                    out = cs.S1(a=v).dumps()
                elif ctx == "union":
                    out = cs.U1(a=v).dumps()
                else:
                    out = cs.W1(s=[cs.S1(a=v), cs.S1()]).dumps()
            except Exception:  # noqa: BLE001
                res.nontrivial += 1
                continue
            res.violations.append(
                Violation("overflow:silently-written", f"overflow|{label}|{ctx}", case,
                          f"{label} {endian} value {x} in context {ctx}: dumps returned {out.hex()} instead of raising",
                          {"type": label, "context": ctx, "endian": endian})
            )
    if len(res.samples) < 2:
        res.samples.append({"overflow_table": label, "bad_values": [str(b) for b in bad_values(w, signed)]})


def meta(tier):
    return {
        "rule": "case = (definition, endian, align, reader, value); values are obtained both by parsing (model-encoded assignments with <=1 "
        "deviating field + raw patterns) and by direct construction from the model's plain values; p=dumps(v) via 4 call forms, T(p)==v by "
        "the library's == and by normalised comparison, reading p+sentinel consumes len(p); plus the exhaustive overflow table "
        "(integer-like types x 6 contexts x 5 out-of-range values, and bit-fields of 6 storage types x 3 width splits x every position x 5 values that do not fit, must raise); non-trivial = round-trip fully checked / overflow rejected",
        "bounds": {"definitions": "D(wide,2)+D(core-4,3)+[EOF] tails+long-run" if tier == "quick" else "D(wide,3)+D(core,4)+[EOF] tails+long-run", "deviations": 1},
        "assumptions": ["NaN values are excluded from equality", "bit-fields are not in the overflow table (C06 covers values that fit)"],
    }
