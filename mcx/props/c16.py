"""C16 - pointers: width from configuration, dereference reads the target in place, stable, restores the stream."""
from __future__ import annotations

import io
import itertools

from .. import impl
from ..impl import same
from ..refmodel.codec import decode
from ..refmodel.types import CHAR, INTS, WCHAR, Cfg, RefEOF, TArr, TEnum, TField, TPtr, TStruct, sizeof
from ..refmodel.codec import RefInvalid
from ..runner import JobResult, Violation

ID = "C16"
LEVEL = "model_checking"
TASKS_PER_CHILD = 8

TT = TStruct("tt_t", (TField("a", INTS["uint8"]), TField("b", INTS["uint16"])))
TD = TStruct("td_t", (TField("n", INTS["uint8"]), TField("d", TArr(CHAR, "n"))))
E8 = TEnum("E8p", INTS["uint8"], (("A", 1), ("B", 2)))
PRE = "struct tt_t { uint8 a; uint16 b; };\nstruct td_t { uint8 n; char d[n]; };\nenum E8p : uint8 { A = 1, B = 2 };\n"
TARGETS = {
    "uint8": ("uint8", INTS["uint8"]), "uint16": ("uint16", INTS["uint16"]), "int24": ("int24", INTS["int24"]), "tt_t": ("tt_t", TT), "td_t": ("td_t", TD),
    "char": ("char", "CSTRING"), "wchar": ("wchar", WCHAR), "E8p": ("E8p", E8), "uint8*": ("uint8 *", "PTR"), "void": ("void", "VOID"), "uint64": ("uint64", INTS["uint64"]),
}
POSITIONS = {
    "only": "struct S {{ {T} *p; }};",
    "middle": "struct S {{ uint8 h; {T} *p; uint16 t; }};",
    "array": "struct S {{ {T} *arr[2]; uint8 t; }};",
    "nested": "struct N {{ {T} *p; uint8 k; }};\nstruct S {{ uint8 h; N n; }};",
    "mixed": "struct S {{ {T} *p; uint16 *q; char *s; uint8 t; }};",
    "union": "union UU {{ {T} *p; uint8 raw[2]; }};\nstruct S {{ uint8 h; UU u; uint8 t; }};",
    "structarray": "struct N {{ {T} *p; uint8 k; }};\nstruct S {{ uint8 h; N ns[2]; uint8 t; }};",
}
BUFLEN = 36
CONTENTS = [bytes(((i * 23 + 5) % 251) + 1 if i % 7 else 0 for i in range(BUFLEN)), bytes([2, 0x41, 0x42, 0, 0, 3, 0x61, 0x62, 0x63] * 4),
            bytes([0, 0, 0, 0, 9, 0, 0, 0, 0, 0, 0, 7] * 3)]  # runs of zero bytes: all-zero (falsy) targets
LONG = bytes(36) + bytes(0x21 + (i % 90) for i in range(70)) + b"\x00" + bytes(0x41 + (i % 26) for i in range(140)) + b"\x00\x00\x07"  # strings of 70 and 140 bytes
WIDTHS = ("uint8", "uint16", "uint32", "uint64")


def expected_target(tkey, buf, addr, cfg):
    """-> ('ok', plain value) | ('raise',) per the model: what parsing the target type at absolute offset addr returns."""
    name, t = TARGETS[tkey]
    try:
        if t == "CSTRING":
            v, _ = decode(TArr(CHAR, None), buf, addr, cfg)
        elif t == "VOID":
            return ("ok", None)
        elif t == "PTR":
            if addr + cfg.ptr.size > len(buf):
                return ("raise",)
            v = int.from_bytes(buf[addr : addr + cfg.ptr.size], cfg.bo)
        else:
            v, _ = decode(t, buf, addr, cfg)
        return ("ok", v)
    except (RefEOF, RefInvalid):
        return ("raise",)


def get_ptrs(v, pos):
    if pos == "array":
        return [("arr[0]", v.arr[0]), ("arr[1]", v.arr[1])]
    if pos == "nested":
        return [("n.p", v.n.p)]
    if pos == "union":
        return [("u.p", v.u.p)]
    if pos == "structarray":
        return [("ns[0].p", v.ns[0].p), ("ns[1].p", v.ns[1].p)]
    return [("p", v.p)]


import sys as _sys

NATIVE = "<" if _sys.byteorder == "little" else ">"
SPELLINGS = {"@": NATIVE, "=": NATIVE, "!": ">"}  # other spellings of a byte order the library accepts


def check_case(tkey, pos, width, endian, compiled, res: JobResult, tier, spelling=None):
    from dissect.cstruct import NullPointerDereference, Pointer, cstruct

    tname, tdesc = TARGETS[tkey]
    text = PRE + POSITIONS[pos].format(T=tname)
    cfg = Cfg(endian=endian, ptr=INTS[width])
    psz = INTS[width].size
    cs = cstruct(endian=spelling or endian, pointer=width)
    case = {"target": tkey, "position": pos, "width": width, "endian": endian, "compiled": compiled}
    if spelling:
        case["spelling"] = spelling

    def issue(kind, d, **kw):
        c = dict(case)
        c.update(kw)
        res.violations.append(Violation(kind, f"{kind}|{tkey}|{pos}|{'compiled' if compiled else 'interpreted'}", c, f"{POSITIONS[pos].format(T=tname)!r} ptr={width} {endian} compiled={compiled}: " + str(d)[:400],
                                        {"target": tkey, "position": pos, "width": width, "reader": "compiled" if compiled else "interpreted"}))

    try:
        cs.load(text, compiled=compiled)
    except Exception as e:  # noqa: BLE001
        issue("load:raises", f"{impl.exc_sig(e)} {e!r}")
        return
    S = cs.S
    res.transitions += 1
    # field offsets of the pointer slots inside S
    fields = {f._name: f for f in S.__fields__}
    holder = cs.N if pos in ("nested", "structarray") else cs.UU if pos == "union" else S
    pname_ = "arr" if pos == "array" else "p"
    if pname_ not in holder.fields:
        issue("definition:field-name", f"the pointer member declared as {pname_!r} is named {[n for n in holder.fields]} (declarator text: {POSITIONS[pos].format(T=tname)!r})")
        return
    if pos == "nested":
        slot_off = [fields["n"].offset + cs.N.fields["p"].offset]
        ptype = cs.N.fields["p"].type
    elif pos == "union":
        slot_off = [fields["u"].offset]
        ptype = cs.UU.fields["p"].type
    elif pos == "structarray":
        slot_off = [fields["ns"].offset + cs.N.fields["p"].offset, fields["ns"].offset + len(cs.N) + cs.N.fields["p"].offset]
        ptype = cs.N.fields["p"].type
    elif pos == "array":
        slot_off = [fields["arr"].offset, fields["arr"].offset + psz]
        ptype = fields["arr"].type.type
    else:
        slot_off = [fields["p"].offset]
        ptype = fields["p"].type
    if ptype.size != psz or len(ptype) != psz:
        issue("width", f"pointer field occupies {ptype.size} bytes, configured pointer type {width} has {psz}")
        return
    size = len(S)
    maxaddr = min(BUFLEN + 1, (1 << (8 * psz)) - 1)
    contents = list(CONTENTS)
    if tkey in ("char", "uint8*", "uint8") and pos in ("only", "array"):
        contents.append(LONG)  # long NUL-terminated strings
    for ci, content in enumerate(contents):
        maxaddr = min(len(content) + 1, (1 << (8 * psz)) - 1)
        for addr in range(0, maxaddr + 1):
            buf = bytearray(content)
            for k, so in enumerate(slot_off):
                a = addr if k == 0 else (addr + 3) % (maxaddr + 1)
                buf[so : so + psz] = a.to_bytes(psz, cfg.bo)
            if pos == "mixed":
                qo, so_ = fields["q"].offset, fields["s"].offset
                buf[qo : qo + psz] = (size).to_bytes(psz, cfg.bo)
                buf[so_ : so_ + psz] = (size + 2).to_bytes(psz, cfg.bo)
            buf = bytes(buf)
            st = io.BytesIO(buf)
            res.evaluations += 1
            res.states += 1
            res.traces += 1
            try:
                v = S(st)
            except Exception as e:  # noqa: BLE001
                issue("parse:raises", f"addr {addr}: {impl.exc_sig(e)} {e!r}", addr=addr, content=ci)
                break
            if st.tell() != size:
                issue("parse:consumed", f"addr {addr}: stream at {st.tell()}, structure size {size}", addr=addr, content=ci)
                break
            if v.dumps() != buf[:size]:
                issue("dumps:address-changed", f"addr {addr}: dumps {v.dumps().hex()} != {buf[:size].hex()}", addr=addr, content=ci)
                break
            ptrs = get_ptrs(v, pos)
            bad = False
            for k, (pname, p) in enumerate(ptrs):
                a = addr if k == 0 else (addr + 3) % (maxaddr + 1)
                if not isinstance(p, Pointer) or type(p) is not ptype or int(p) != a:
                    issue("pointer:value", f"{pname} = {p!r} ({type(p).__name__}), stored address {a}, field type {ptype.__name__}", addr=addr, content=ci)
                    bad = True
                    break
                bad = not deref_checks(cs, S, v, st, p, pname, a, tkey, buf, cfg, size, issue, res, addr, ci, NullPointerDereference, Pointer)
                if bad:
                    break
            if bad:
                break
            if pos == "mixed":
                # the other pointers of the same block keep their own target types
                try:
                    q, s = v.q, v.s
                    eq = decode(INTS["uint16"], buf, size, cfg)[0] if size + 2 <= len(buf) else None
                    es = decode(TArr(CHAR, None), buf, size + 2, cfg)[0]
                    if type(q).type is not cs.uint16 or type(s).type is not cs.char or (eq is not None and int(q.dereference()) != eq) or bytes(s.dereference()) != es:
                        issue("pointer:wrong-target-type", f"q: {type(q).__name__} -> {q.dereference()!r} (expected uint16 {eq}), s: {type(s).__name__} -> {s.dereference()!r} (expected {es!r})", addr=addr, content=ci)
                        break
                except Exception as e:  # noqa: BLE001
                    issue("pointer:mixed-raises", f"{impl.exc_sig(e)} {e!r}", addr=addr, content=ci)
                    break
    # null / stream-less pointers
    try:
        d = S()
        p0 = get_ptrs(d, pos)[0][1] if pos != "union" else cs.UU().p
        for label, p in (("default", p0), ("default+5", p0 + 5)):
            res.evaluations += 1
            try:
                r = p.dereference()
                issue("null:dereferenced", f"{label} pointer (no stream) dereferenced to {r!r} instead of raising NullPointerDereference")
            except NullPointerDereference:
                pass
            except Exception as e:  # noqa: BLE001
                issue("null:wrong-exception", f"{label} pointer: {impl.exc_sig(e)} {e!r}, expected NullPointerDereference")
    except Exception as e:  # noqa: BLE001
        issue("default:raises", f"{impl.exc_sig(e)} {e!r}")
    if len(res.samples) < 2:
        res.samples.append({"definition": POSITIONS[pos].format(T=tname), "pointer": width, "endian": endian, "addresses": f"0..{maxaddr}", "contents": len(CONTENTS)})


def deref_checks(cs, S, v, st, p, pname, a, tkey, buf, cfg, size, issue, res, addr, ci, NullPointerDereference, Pointer):
    def observe(ptr, at, label):
        """dereference ptr (expected to point at absolute offset `at`); returns False on violation."""
        exp = ("null",) if at == 0 else expected_target(tkey, buf, at, cfg)
        before = st.tell()
        res.transitions += 1
        try:
            r = ptr.dereference()
            got = ("ok", int(r) if isinstance(r, Pointer) else impl.norm(r))
        except NullPointerDereference:
            got = ("null",)
        except Exception as e:  # noqa: BLE001
            got = ("raise", type(e).__name__)
        after = st.tell()
        if after != before:
            issue("deref:moves-stream", f"{label} at {at}: stream moved from {before} to {after} (result {got})", addr=addr, content=ci)
            return False
        if exp[0] == "null":
            if got[0] != "null":
                issue("deref:null", f"{label}: null pointer gave {got} instead of NullPointerDereference", addr=addr, content=ci)
                return False
        elif exp[0] == "raise":
            if got[0] == "ok":
                issue("deref:fabricated", f"{label} at {at}: target runs past the end of the stream but dereference returned {got[1]!r}", addr=addr, content=ci)
                return False
        else:
            if got[0] != "ok" or not same(got[1], exp[1]):
                issue("deref:value", f"{label} at {at}: {got}, parsing the target there gives {exp[1]!r}", addr=addr, content=ci)
                return False
            res.nontrivial += 1
            # stable on repeated access
            try:
                r2 = ptr.dereference()
                g2 = int(r2) if isinstance(r2, Pointer) else impl.norm(r2)
                if not same(g2, exp[1]) or st.tell() != before:
                    issue("deref:unstable", f"{label} at {at}: second dereference gives {g2!r}, first {got[1]!r}", addr=addr, content=ci)
                    return False
            except Exception as e:  # noqa: BLE001
                issue("deref:unstable", f"{label} at {at}: second dereference raises {impl.exc_sig(e)}", addr=addr, content=ci)
                return False
            if tkey == "tt_t":
                # "stable": the structure handed out is the one handed out again (an assignment made through it is still there on the next access)
                try:
                    keep = int(r.a)
                    r.a = keep ^ 0x5A  # r and r2 were both handed out before this assignment
                    seen = (int(r2.a), int(ptr.dereference().a))
                    r.a = keep
                    if seen != (keep ^ 0x5A, keep ^ 0x5A):
                        issue("deref:unstable", f"{label} at {at}: t = p.dereference(); t2 = p.dereference(); t.a = {keep ^ 0x5A:#x}: t2.a / the next dereference show a = {seen} (target {exp[1]})", addr=addr, content=ci)
                        return False
                except Exception as e:  # noqa: BLE001
                    issue("deref:unstable", f"{label} at {at}: assignment through the dereferenced structure: {impl.exc_sig(e)} {e!r}", addr=addr, content=ci)
                    return False
                if int(ptr.a) != exp[1]["a"] or int(ptr.b) != exp[1]["b"]:
                    issue("deref:attribute", f"{label} at {at}: attribute access gives a={ptr.a} b={ptr.b}, expected {exp[1]}", addr=addr, content=ci)
                    return False
            if tkey == "uint8*" and got[0] == "ok":
                inner = ptr.dereference()
                e2 = ("null",) if exp[1] == 0 else (("ok", buf[exp[1]]) if exp[1] < len(buf) else ("raise",))
                try:
                    g = ("ok", int(inner.dereference()))
                except NullPointerDereference:
                    g = ("null",)
                except Exception:  # noqa: BLE001
                    g = ("raise",)
                if g[0] != e2[0] or (g[0] == "ok" and g != e2) or st.tell() != before:
                    issue("deref:double", f"{label} at {at}: **p gives {g}, expected {e2}", addr=addr, content=ci)
                    return False
        return True

    if not observe(p, a, pname):
        return False
    # pointer arithmetic: same type, same stream
    for delta in (1, -1, 2):
        if a + delta < 0:
            continue
        q = p + delta if delta > 0 else p - (-delta)
        if type(q) is not type(p) or int(q) != a + delta:
            issue("arith:type-or-value", f"{pname}{delta:+d} = {q!r} of type {type(q).__name__}, expected {type(p).__name__} @ {a + delta}", addr=addr, content=ci)
            return False
        if not observe(q, a + delta, f"({pname}{delta:+d})"):
            return False
    # every arithmetic operator yields a pointer of the same type on the same stream
    import operator as _op

    for name, fn, arg in (("*", _op.mul, 2), ("//", _op.floordiv, 2), ("%", _op.mod, 5), ("<<", _op.lshift, 1), (">>", _op.rshift, 1), ("&", _op.and_, 0xFE), ("|", _op.or_, 1), ("^", _op.xor, 3)):
        q = fn(p, arg)
        expv = fn(a, arg)
        if type(q) is not type(p) or int(q) != expv or getattr(q, "_stream", None) is not getattr(p, "_stream", None):
            issue("arith:type-or-value", f"{pname} {name} {arg} = {q!r} of type {type(q).__name__}, expected {type(p).__name__} @ {expv} on the same stream", addr=addr, content=ci)
            return False
    q = p | 1
    if not observe(q, a | 1, f"({pname}|1)"):
        return False
    q = p & 0xFE
    if not observe(q, a & 0xFE, f"({pname}&0xFE)"):
        return False
    # reading on after dereferencing: the stream continues where the structure ended
    nxt = st.read(1)
    st.seek(size)
    if nxt != buf[size : size + 1]:
        issue("deref:stream-position", f"after dereferencing, the next byte read is {nxt.hex()} instead of {buf[size:size+1].hex()}", addr=addr, content=ci)
        return False
    if v.dumps() != buf[:size]:
        issue("dumps:after-deref", f"dumps after dereferencing {v.dumps().hex()} != {buf[:size].hex()}", addr=addr, content=ci)
        return False
    return True


def width_histories(tier) -> JobResult:
    """The pointer width is the one configured when the definition is loaded - also after it was changed on the cstruct object."""
    from dissect.cstruct import cstruct

    res = JobResult()
    sz = {"uint8": 1, "uint16": 2, "uint32": 4, "uint64": 8}
    for w1, w2 in itertools.permutations(WIDTHS, 2):
        for compiled in (False, True):
            for endian in "<>":
                cs = cstruct(endian=endian, pointer=w1)
                cs.load("struct T { uint8 a; uint16 b; };\nstruct A { T *p; uint8 *q; uint8 t; };", compiled=compiled)
                cs.pointer = cs.resolve(w2)
                cs.load("struct B { T *p; uint8 *q; uint8 t; };", compiled=compiled)
                res.evaluations += 1
                res.states += 1
                res.transitions += 3
                res.nontrivial += 1
                case = {"history": [w1, w2], "compiled": compiled, "endian": endian}
                exp = 2 * sz[w2] + 1
                bo = "little" if endian == "<" else "big"
                data = (exp).to_bytes(sz[w2], bo) + (exp + 1).to_bytes(sz[w2], bo) + b"\x7e" + bytes([9, 1, 2, 3, 4])
                try:
                    ok = len(cs.B) == exp and cs.B.fields["p"].type.size == sz[w2]
                    st = io.BytesIO(data)
                    v = cs.B(st)
                    ok = ok and st.tell() == exp and int(v.p) == exp and int(v.q) == exp + 1 and int(v.t) == 0x7E and v.dumps() == data[:exp]
                    ok = ok and int(v.q.dereference()) == data[exp + 1] and int(v.p.a) == data[exp]
                    if not ok:
                        res.violations.append(Violation("width-history", "width-history", case, f"pointer type {w1} then {w2}: struct B has size {len(cs.B)} (expected {exp}), parsed {impl.norm(v)} tell {st.tell()}"))
                except Exception as e:  # noqa: BLE001
                    res.violations.append(Violation("width-history:raises", "width-history", case, f"pointer type {w1} then {w2}: {impl.exc_sig(e)} {e!r}"))
    res.samples.append({"width_histories": "load with pointer w1, switch cs.pointer to w2, load another definition: all 12 ordered pairs x reader x endian"})
    return res


def jobs(tier):
    out = [("widths", tier)]
    for tkey in TARGETS:
        for pos in POSITIONS:
            out.append(("cases", tier, tkey, pos))
    return out


def run(job) -> JobResult:
    if job[0] == "widths":
        return width_histories(job[1])
    _, tier, tkey, pos = job
    res = JobResult()
    for width in WIDTHS:
        for endian in "<>":
            for compiled in (False, True):
                check_case(tkey, pos, width, endian, compiled, res, tier)
        if pos in ("only", "middle", "array") and tkey in ("uint16", "tt_t", "char", "uint8*"):
            # the byte order spelled '@' / '=' (native) or '!' (network) behaves like the order it denotes
            for spelling, endian in SPELLINGS.items():
                for compiled in (False, True):
                    check_case(tkey, pos, width, endian, compiled, res, tier, spelling=spelling)
    return res


def replay(case):
    if "history" in case:
        return [v for v in width_histories("thorough").violations if v.case == case]
    res = JobResult()
    check_case(case["target"], case["position"], case["width"], case["endian"], case["compiled"], res, "thorough", spelling=case.get("spelling"))
    return res.violations


def meta(tier):
    return {
        "rule": "case = (target type out of 11, position out of 5 (only field, between fields, array of pointers, nested struct, several pointers of different "
        "target types in one block), pointer width 8/16/32/64, endian, reader, buffer content out of 2, EVERY address 0..len+1); oracle: field width, "
        "int(p), dereference = model decode of the target at that absolute offset (NUL-terminated for char, pointer for T**, None for void), "
        "NullPointerDereference for null and stream-less pointers, an error for targets past the end, stream position unchanged by every "
        "dereference (also failing ones), repeated access stable, attribute access, p+1 / p-1 / p+2 keep type and stream, dumps writes the address "
        "back, reading continues behind the structure; plus pointer-width switch histories; non-trivial = successful dereferences",
        "bounds": {"buffer": BUFLEN, "targets": list(TARGETS), "positions": list(POSITIONS)},
        "assumptions": ["pointer types of 24/48/128 bit are outside the alphabet (the statement says 8..64 bit)"],
    }
