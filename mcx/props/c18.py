"""C18 - incrementally built or self-referential structures equal the one-shot definition (BFS over add_field/commit histories)."""
from __future__ import annotations

import io
import itertools

from .. import impl
from .. import structcase as sc
from ..gen import alphabet as A
from ..gen import defs
from ..impl import same
from ..refmodel.types import EOF, INTS, TArr, TField, TStruct, collect, render, render_enum, render_body
from ..runner import JobResult, Violation

ID = "C18"
LEVEL = "model_checking"
TASKS_PER_CHILD = 6


def atoms(tier):
    # + the anonymous struct member (two folded fields): commits that follow it see a folded field count that differs from the raw one
    return list(A.atoms_core()) + [a for a in A.atoms_wide() if a.name.endswith("(anon)")]


def seqs(tier):
    core = atoms(tier)
    reps = [a for a in core if a.name in ("uint8", "uint32", "uint24", "char[n0]", "char[]", "in_t", "ind_t", "uint8:3", "uint16:4", "uint16:12", "un_t", "uint16[2]") or a.name.endswith("(anon)")]
    seen = set()
    out = []

    def emit(gen):
        for s in gen:
            nm = defs.names(s)
            if nm not in seen:
                seen.add(nm)
                out.append(nm)

    emit(defs.product_defs(core, 2))
    # definitions that do not start with the uint8 length field: a first field of a bytes type, a bit-field, a nested struct ...
    firsts = ("char", "char[2]", "uint8:3", "in_t", "uint16[2]", "uint32")
    seconds = ("uint8", "uint32", "char", "char[2]", "uint16:4", "in_t")
    for a in firsts:
        for b in seconds:
            nm = (sc.NOLEAD, a, b)
            if nm not in seen:
                seen.add(nm)
                out.append(nm)
        nm = (sc.NOLEAD, a, "uint8", "uint16")
        seen.add(nm)
        out.append(nm)
    emit(defs.product_defs(reps, 3, 3))
    if tier == "thorough":
        emit(defs.product_defs(core, 3, 3))
        emit(defs.product_defs(reps, 4, 4))
    return out


def jobs(tier):
    return [("selfref", tier), ("padnames", tier)] + [(tier, c) for c in defs.chunks(seqs(tier), 10)]


def splits(m):
    """All ways to cut a sequence of m fields into consecutive non-empty batches."""
    for cuts in itertools.product((0, 1), repeat=m - 1):
        batches = []
        cur = [0]
        for i, c in enumerate(cuts, start=1):
            if c:
                batches.append(cur)
                cur = [i]
            else:
                cur.append(i)
        batches.append(cur)
        yield batches


def prereq_text(st: TStruct) -> str:
    out: list = []
    for f in st.fields:
        collect(f.type, out)
    parts = []
    for t in out:
        if hasattr(t, "members"):
            parts.append(render_enum(t))
        else:
            parts.append(f"{'union' if t.union else 'struct'} {t.name} {{ {render_body(t)} }};")
    return "\n".join(parts)


def _poke(v, depth=0):
    """Assign below field level in place (first element of an array, first scalar of a nested structure).  True if something was changed."""
    from dissect.cstruct.types import Structure

    if depth > 4:
        return False
    if isinstance(v, list):
        if not v:
            return False
        if isinstance(v[0], (list, Structure)):
            return _poke(v[0], depth + 1)
        if isinstance(v[0], int) and not isinstance(v[0], bool):
            v[0] = type(v[0])(1) if type(v[0]).__module__.startswith("dissect") and not hasattr(type(v[0]), "_member_map_") else 1
            return True
        return False
    if isinstance(v, Structure):
        for f in type(v).__fields__:
            x = getattr(v, f._name, None)
            if isinstance(x, (list, Structure)):
                if _poke(x, depth + 1):
                    return True
            elif isinstance(x, int) and not isinstance(x, bool) and not f.bits and not hasattr(type(x), "_member_map_") and "Pointer" not in type(x).__mro__[1].__name__:
                setattr(v, f._name, 1)
                return True
    return False


def observe(T, inputs):
    """Everything the statement names: layout, reader kind, parse results (+sizes, tell) at offsets 0 and 1, writer, instance behaviour."""
    obs = {"layout": sc.layout_sig(T), "compiled": bool(T.__compiled__)}
    outs = []
    for data in inputs:
        for p in (0, 1):
            s = io.BytesIO(b"\x5a" * p + data)
            s.seek(p)
            try:
                v = T(s)
                rec = ("ok", repr(impl.norm(v)), s.tell() - p, tuple(sorted((getattr(v, "_sizes", {}) or {}).items())))
                try:
                    rec += (v.dumps().hex(),)
                except Exception as e:  # noqa: BLE001
                    rec += ("dump-exc:" + type(e).__name__,)
            except Exception as e:  # noqa: BLE001
                rec = ("exc", type(e).__name__)
            outs.append(rec)
    obs["parse"] = outs
    try:
        d = T()
        obs["default"] = (repr(impl.norm(d)), bool(d))
        try:
            obs["default_dump"] = d.dumps().hex()
        except Exception as e:  # noqa: BLE001
            obs["default_dump"] = "exc:" + type(e).__name__
        try:
            obs["default_eq"] = (T() == T(), )
        except Exception as e:  # noqa: BLE001
            obs["default_eq"] = "exc:" + type(e).__name__
        try:
            obs["hash"] = hash(T()) == hash(T())
        except TypeError:
            obs["hash"] = "unhashable"
        # default instances are independent: assigning below field level in one never shows in another
        try:
            d1 = T()
            before = repr(impl.norm(T()))
            poked = False
            for f in T.__fields__:
                x = getattr(d1, f._name, None)
                if isinstance(x, list) or hasattr(type(x), "__fields__"):
                    poked = _poke(x) or poked
            obs["default_isolated"] = (repr(impl.norm(T())) == before, T().dumps().hex() == obs["default_dump"])
        except Exception as e:  # noqa: BLE001
            obs["default_isolated"] = "exc:" + type(e).__name__
        # call form T(<bytes>) with short buffers (the single-char shortcut is decided from the CURRENT field list)
        cb = []
        for k in (1, 2, 4):
            try:
                v = T(inputs[0][:k])
                cb.append((k, repr(impl.norm(v)), hasattr(v, "_sizes") and bool(getattr(v, "_sizes", None))))
            except Exception as e:  # noqa: BLE001
                cb.append((k, "exc:" + type(e).__name__))
        obs["call_bytes"] = cb
        names = [f._name for f in T.__fields__]
        if names and T.__fields__[0].type.__name__ == "uint8":
            k = T(**{names[0]: 3})
            obs["kw"] = repr(impl.norm(k))
    except Exception as e:  # noqa: BLE001
        obs["default"] = "exc:" + impl.exc_sig(e)
    return obs


def diff(a, b):
    return [k for k in sorted(set(a) | set(b)) if a.get(k) != b.get(k)]


def check_seq(names, endian, align, compiled, res: JobResult, tier):
    from dissect.cstruct import compiler, cstruct
    from dissect.cstruct.types.structure import Field

    st, text = sc.build(names)
    case = sc.case_json(names, endian, align, compiled=compiled)
    m = len(st.fields)
    inputs = list(sc.values.raw_patterns(72))[:3]
    oneshot_cache = {}

    def oneshot(k):
        """The structure declared in one piece with the first k fields."""
        if k not in oneshot_cache:
            sub = TStruct("S", st.fields[:k])
            cs = cstruct(endian=endian)
            cs.load(render(sub), compiled=compiled, align=align)
            oneshot_cache[k] = observe(cs.S, inputs)
        return oneshot_cache[k]

    def viol(kind, detail, **kw):
        feats = sc.features(names, endian, align, "compiled" if compiled else "interpreted")
        c = dict(case)
        c.update(kw)
        res.violations.append(Violation(kind, f"{kind}|align={align}|compiled={compiled}|{sc.cluster_tail(names)}", c, f"{text.splitlines()[-1]!r} {endian} align={align} compiled={compiled}: " + detail, feats))

    try:
        oneshot(m)
    except Exception as e:  # noqa: BLE001
        res.extra["oneshot_rejected"] += 1
        return
    class Interrupt(Exception):
        pass

    def variants(batches):
        yield 0, None
        if len(batches[0]) == 1 and m > 1:
            yield 1, None  # the class is CREATED with its first field, then extended
        for bi, batch in enumerate(batches):
            if len(batch) >= 2:
                for j in range(1, len(batch)):
                    yield 0, (bi, j)  # the batch is interrupted by an exception after j add_field calls

    stop = False
    for batches in splits(m):
        for init, fault in variants(batches):
            if tier == "quick" and fault is not None and len(batches) > 2:
                continue
            cs = cstruct(endian=endian)
            try:
                pre = prereq_text(st)
                if pre:
                    cs.load(pre, compiled=compiled, align=align)
                # field type objects exactly as the parser creates them
                cs.load(f"struct TMP__ {{ {render_body(st)} }};", compiled=False, align=align)
                ftypes = [(f._name, f.type, f.bits, f.name) for f in cs.TMP__.__fields__]  # f.name is None for an anonymous member
                T = cs._make_struct("S", [Field(rn, t, bits=b) for n, t, b, rn in ftypes[:init]], align=align)
                if compiled:
                    T = compiler.compile(T)
                cs.add_type("S", T)
            except Exception as e:  # noqa: BLE001
                viol("setup:raises", f"{impl.exc_sig(e)} {e!r}")
                return
            res.evaluations += 1
            res.traces += 1
            hist = [f"create({','.join(x[0] for x in ftypes[:init])})"]
            failed = False
            todo = [list(b) for b in batches]
            if init:
                todo = todo[1:]
            split_doc = {"split": [len(b) for b in batches], "init": init, "fault": list(fault) if fault else None}
            bi = init
            while todo:
                batch = todo.pop(0)
                cut = fault[1] if fault is not None and fault[0] == bi else None
                bi += 1
                try:
                    if len(batch) == 1:
                        n, t, b, rn = ftypes[batch[0]]
                        T.add_field(rn, t, bits=b)
                        hist.append(f"add_field({n})")
                    elif cut is None:
                        with T.start_update():
                            for i in batch:
                                n, t, b, rn = ftypes[i]
                                T.add_field(rn, t, bits=b)
                        hist.append("batch(" + ",".join(ftypes[i][0] for i in batch) + ")")
                    else:
                        try:
                            with T.start_update():
                                for i in batch[:cut]:
                                    n, t, b, rn = ftypes[i]
                                    T.add_field(rn, t, bits=b)
                                raise Interrupt
                        except Interrupt:
                            pass
                        hist.append("batch(" + ",".join(ftypes[i][0] for i in batch[:cut]) + ",<exception>)")
                        res.extra["interrupted_batches"] += 1
                except Exception as e:  # noqa: BLE001
                    viol("commit:raises", f"history {hist} then batch {[ftypes[i][0] for i in batch]}: {impl.exc_sig(e)} {e!r}", history=hist, **split_doc)
                    failed = True
                    break
                # the field list is the single source of truth (an interrupted batch may keep or drop what it added, but must be consistent)
                done = len(T.__fields__)
                if [f._name for f in T.__fields__] != [x[0] for x in ftypes[:done]]:
                    viol("fields:unexpected", f"after {hist}: __fields__ = {[f._name for f in T.__fields__]}", history=list(hist), **split_doc)
                    failed = True
                    break
                if cut is not None:
                    rest = [i for i in batch if i >= done]
                    if rest:
                        todo.insert(0, rest)
                res.transitions += 1
                res.states += 1
                if len(batches) > 1 or fault:
                    res.nontrivial += 1
                try:
                    ref = oneshot(done)
                except Exception:  # noqa: BLE001
                    continue  # this prefix cannot be declared in one piece either
                got = observe(T, inputs)
                d = diff(got, ref)
                if d:
                    first = d[0]
                    viol(f"differs:{first}", f"after {hist}: {first}: incremental {str(got.get(first))[:300]} one-shot {str(ref.get(first))[:300]}", history=list(hist), **split_doc)
                    failed = True
                    break
            if failed:
                stop = True
                break
        if stop:
            break
    if len(res.samples) < 2:
        res.samples.append({"definition": text, "splits": [[len(b) for b in bs] for bs in splits(m)][:4], "endian": endian, "align": align, "compiled": compiled})


def selfref(tier) -> JobResult:
    """A structure declared with a forward reference to itself equals the same layout with void pointers."""
    from dissect.cstruct import cstruct

    res = JobResult()
    for ptr in (None, "uint32", "uint16"):
        for endian in "<>":
            for align in (False, True):
                for compiled in (False, True):
                    csn = cstruct(endian=endian, pointer=ptr)
                    csv = cstruct(endian=endian, pointer=ptr)
                    csn.load("struct N { uint8 v; N *next; N *arr[2]; uint8 t; };", compiled=compiled, align=align)
                    csv.load("struct N { uint8 v; void *next; void *arr[2]; uint8 t; };", compiled=compiled, align=align)
                    res.transitions += 2
                    res.evaluations += 1
                    res.states += 1
                    res.nontrivial += 1
                    case = {"selfref": True, "ptr": ptr, "endian": endian, "align": align, "compiled": compiled}
                    N, V = csn.N, csv.N
                    sig = lambda T: (T.size, T.alignment, [(f._name, f.offset) for f in T.__fields__])  # noqa: E731
                    if sig(N) != sig(V) or N.__compiled__ != V.__compiled__ or (compiled and not N.__compiled__):
                        res.violations.append(Violation("selfref:layout", "selfref:layout", case, f"self-referential {sig(N)} compiled={N.__compiled__} vs void* version {sig(V)} compiled={V.__compiled__}"))
                        continue
                    size = N.size
                    psz = csn.pointer.size
                    bo = "little" if endian == "<" else "big"
                    # node 0 at 0 -> next = node 1 at `size`; arr = [node 1, null]
                    node = lambda v, nxt, a0, a1, t: None  # noqa: E731
                    buf = bytearray(size * 2 + 8)

                    def put(base, v, nxt, a0, a1, t):
                        offs = {f._name: f.offset for f in N.__fields__}
                        buf[base + offs["v"]] = v
                        buf[base + offs["next"] : base + offs["next"] + psz] = nxt.to_bytes(psz, bo)
                        buf[base + offs["arr"] : base + offs["arr"] + psz] = a0.to_bytes(psz, bo)
                        buf[base + offs["arr"] + psz : base + offs["arr"] + 2 * psz] = a1.to_bytes(psz, bo)
                        buf[base + offs["t"]] = t

                    put(0, 1, size, size, 0, 0x11)
                    put(size, 2, 0, 0, 0, 0x22)
                    data = bytes(buf)
                    s = io.BytesIO(data)
                    try:
                        a = N(s)
                        b = V(io.BytesIO(data))
                        ok = (int(a.v), int(a.next), [int(x) for x in a.arr], int(a.t)) == (int(b.v), int(b.next), [int(x) for x in b.arr], int(b.t)) == (1, size, [size, 0], 0x11)
                        ok = ok and s.tell() == size and a.dumps() == b.dumps() == data[:size]
                        nxt = a.next.dereference()
                        ok = ok and type(nxt) is N and int(nxt.v) == 2 and int(nxt.t) == 0x22 and int(a.arr[0].v) == 2 and s.tell() == size
                        ok = ok and (N(v=1) == N(v=1)) and bool(N(v=1))
                    except Exception as e:  # noqa: BLE001
                        res.violations.append(Violation("selfref:raises", "selfref:raises", case, f"{impl.exc_sig(e)} {e!r}"))
                        continue
                    if not ok:
                        res.violations.append(Violation("selfref:behaviour", "selfref:behaviour", case, f"self-referential struct: parsed {impl.norm(a)} tell {s.tell()} dumps {a.dumps().hex()} vs void* version {impl.norm(b)}"))
    res.samples.append({"selfref": "struct N { uint8 v; N *next; N *arr[2]; uint8 t; } vs void* twin; 3 pointer widths x endian x align x reader"})
    return res


def padnames(tier) -> JobResult:
    """Field lists that repeat the padding name '_' (legal in a one-shot definition) built incrementally with every split."""
    from dissect.cstruct import compiler, cstruct

    res = JobResult()
    lists = [["uint8 a", "uint8 _", "uint16 _", "uint8 b"], ["uint8 _", "uint8 _"], ["uint16 a", "uint8 _", "uint8 _", "uint8 _"], ["uint8 _", "uint32 b", "uint8 _"]]
    data = bytes(range(1, 20))
    for fl in lists:
        text = "struct S { " + " ".join(x + ";" for x in fl) + " };"
        for align in (False, True):
            for compiled in (False, True):
                ref = cstruct()
                ref.load(text, compiled=compiled, align=align)
                robs = observe(ref.S, [data])
                for batches in splits(len(fl)):
                    cs = cstruct()
                    T = cs._make_struct("S", [], align=align)
                    if compiled:
                        T = compiler.compile(T)
                    cs.add_type("S", T)
                    res.evaluations += 1
                    res.states += 1
                    res.traces += 1
                    res.nontrivial += 1
                    case = {"padnames": fl, "align": align, "compiled": compiled, "split": [len(b) for b in batches]}
                    try:
                        for batch in batches:
                            if len(batch) == 1:
                                tn, fn = fl[batch[0]].split()
                                T.add_field(fn, cs.resolve(tn))
                            else:
                                with T.start_update():
                                    for i in batch:
                                        tn, fn = fl[i].split()
                                        T.add_field(fn, cs.resolve(tn))
                            res.transitions += 1
                    except Exception as e:  # noqa: BLE001
                        res.violations.append(Violation("padnames:raises", "padnames:raises", case, f"{text!r} split {case['split']}: {impl.exc_sig(e)} {e!r} (the one-shot definition loads)"))
                        continue
                    d = diff(observe(T, [data]), robs)
                    if d:
                        res.violations.append(Violation("padnames:differs", "padnames:differs", case, f"{text!r} split {case['split']}: differs in {d}"))
    res.samples.append({"padnames": lists})
    return res


def run(job) -> JobResult:
    if job[0] == "selfref":
        return selfref(job[1])
    if job[0] == "padnames":
        return padnames(job[1])
    res = JobResult()
    tier, chunk = job
    for names in chunk:
        for align in (False, True):
            for compiled in (False, True):
                endian = "<" if align == compiled else ">"
                sc.guarded(res, ID, tuple(names), endian, align, lambda: check_seq(tuple(names), endian, align, compiled, res, tier), seconds=60)
    return res


def replay(case):
    if "selfref" in case:
        return [v for v in selfref("thorough").violations if v.case == case]
    if "padnames" in case:
        return [v for v in padnames("thorough").violations if v.case == case]
    res = JobResult()
    check_seq(tuple(case["atoms"]), case["endian"], case["align"], case["compiled"], res, "thorough")
    return res.violations


def meta(tier):
    return {
        "rule": "explicit-state exploration of construction histories: for every field sequence (leading uint8 + <=2 atoms over the 26 core atoms, +3 atoms over "
        "12 representatives; thorough 3/4) and EVERY way of splitting it into consecutive commit steps (single add_field or start_update batch), on a "
        "pre-registered empty structure as the parser creates it - or a class created with its first field - (compiled if requested), with at most one batch interrupted by an exception after j add_field calls (every j), under both readers and both layouts: after every commit the "
        "class is compared with the structure declared in one piece with the same fields - layout signature, compiled flag, parse results incl. "
        "recorded sizes and consumed bytes at stream offsets 0 and 1, dumps, default construction, independence of default instances under in-place "
        "assignment, T(<1/2/4 bytes>) call form, ==/hash/bool, keyword construction; plus self-referential structures vs a void* twin (3 pointer widths) and repeated padding names; non-trivial = states reached "
        "by more than one commit step",
        "bounds": {"sequences": "D(core,2)+D(12 reps,3)" if tier == "quick" else "D(core,3)+D(12 reps,4)", "splits": "all 2^(m-1)"},
        "assumptions": ["field type objects are taken from the parser (a scratch definition in the same cstruct object)"],
    }
