"""C14 - no hidden shared state: instances, defaults and cstruct objects are independent; parsing is a pure function.

Explicit-state exploration of operation histories over two cstruct objects and up to three live instances, against an
"independent worlds" model in which every instance owns a deep copy of its plain value."""
from __future__ import annotations

import copy
import io
import itertools

from .. import impl
from ..impl import same
from ..refmodel import codec
from ..refmodel.codec import decode, decode_with_mask
from ..refmodel.types import CHAR, INTS, WCHAR, Cfg, TArr, TField, TPtr, TStruct, render, sizeof
from ..runner import JobResult, Violation

ID = "C14"
LEVEL = "model_checking"
TASKS_PER_CHILD = 4

N = TStruct("n_t", (TField("a", INTS["uint8"]), TField("b", INTS["uint16"])))
AN = TStruct("__anon_c14", (TField("ax", INTS["uint8"]), TField("ay", TArr(INTS["uint16"], 2))))
U = TStruct("u_t", (TField("lo", INTS["uint8"]), TField("w", INTS["uint16"]), TField("raw", TArr(INTS["uint8"], 2))), union=True)  # smallest member first
S1 = TStruct("S1", (
    TField("a", INTS["uint8"]), TField("arr", TArr(INTS["uint16"], 2)), TField("n", N), TField("ns", TArr(N, 2)), TField("c", TArr(CHAR, 2)),
    TField("w", TArr(WCHAR, 2)), TField("b1", INTS["uint16"], 4), TField("b2", INTS["uint16"], 12), TField("u", U), TField("m", TArr(TArr(INTS["uint8"], 2), 2)),
    TField("p", TPtr(INTS["uint8"])), TField(None, AN), TField("g", TArr(TArr(N, 2), 2)), TField("c3", TArr(TArr(TArr(INTS["uint8"], 2), 2), 2)), TField("z0", TArr(INTS["uint16"], 0)),
))
S2 = TStruct("S2", (TField("n", INTS["uint8"]), TField("d", TArr(INTS["uint16"], "n * NK - n")), TField("t", INTS["uint8"])))
S3 = TStruct("S3", (TField("k", INTS["uint8"]), TField("q", TArr(INTS["uint8"], "2 + 6 / k")), TField("t", INTS["uint8"])))  # the size expression can FAIL (k = 0)
TEXT = "#define NK 2\n" + render(S1) + "\n" + "struct S2 { uint8 n; uint16 d[n * NK - n]; uint8 t; };\nstruct S3 { uint8 k; uint8 q[2 + 6 / k]; uint8 t; };"
TYPES = {"S1": S1, "S2": S2, "S3": S3}
ENDIAN = ["<", ">"]


def other(e):
    return ">" if e == "<" else "<"


class World:
    """Model + implementation side by side."""

    def __init__(self, compiled):
        from dissect.cstruct import cstruct

        self.cs = [cstruct(endian=ENDIAN[0]), cstruct(endian=ENDIAN[1])]
        for cs in self.cs:
            cs.load(TEXT, compiled=compiled)
        self.endian = list(ENDIAN)
        self.flipped = [False, False]
        self.nk = [2, 2]
        self.extra = [set(), set()]
        self.inst = []  # (ci, type name, impl object, model value)
        self.created_nk = {}  # id(impl object) -> value of the constant NK when the instance was created
        self.compiled = compiled

    def cfg(self, ci):
        return Cfg(endian=self.endian[ci], consts={"NK": self.nk[ci]})


def zero_value(tname, cfg):
    if tname == "S1":
        v, _ = decode(S1, bytes(sizeof(S1, cfg)), 0, cfg)
        return v
    if tname == "S3":
        return None  # S3() cannot be sized (k = 0 divides by zero): not constructed by default
    return {"n": 0, "d": [], "t": 0}


def data_for(tname, k):
    if tname == "S1":
        n = sizeof(S1, Cfg())
        return bytes(((i * 7 + 3 + k * 11) % 250) + 1 for i in range(n))
    if tname == "S3":
        return bytes([2 + (k % 2)]) + bytes([0x21 + k, 0x22, 0x23 + k, 0x24, 0x25, 0x26, 0x27]) + bytes([0x66 - k])
    return bytes([2]) + bytes([0x10 + k, 0x20, 0x30 + k, 0x40, 0x50 + k, 0x60, 0x70, 0x71 + k]) + bytes([0x99 - k, 0x98])


# ---------------------------------------------------------------------------------------------- operations
def op_new_default(ci, tname):
    def run(w: World):
        obj = getattr(w.cs[ci], tname)()
        w.inst.append((ci, tname, obj, zero_value(tname, w.cfg(ci))))
    return (f"new_default(cs{ci},{tname})", run, lambda w: len(w.inst) < 3)


def op_new_kw(ci):
    def run(w: World):
        obj = w.cs[ci].S1(a=7, arr=[5, 6])
        v = zero_value("S1", w.cfg(ci))
        v["a"] = 7
        v["arr"] = [5, 6]
        w.inst.append((ci, "S1", obj, v))
    return (f"new_kw(cs{ci})", run, lambda w: len(w.inst) < 3)


def op_parse(ci, tname, k):
    def run(w: World):
        data = data_for(tname, k)
        obj = getattr(w.cs[ci], tname)(data)
        v, _ = decode(TYPES[tname], data, 0, w.cfg(ci))
        w.created_nk[id(obj)] = w.nk[ci]
        w.inst.append((ci, tname, obj, v))
    return (f"parse(cs{ci},{tname},{k})", run, lambda w: len(w.inst) < 3)


def op_fail_parse(ci, tname):
    def run(w: World):
        data = data_for(tname, 0)
        try:
            getattr(w.cs[ci], tname)(data[: 3 if tname == "S2" else len(data) - 2])
        except EOFError:
            return
        raise AssertionError("truncated parse did not raise EOFError")
    return (f"fail_parse(cs{ci},{tname})", run, lambda w: True)


def op_fail_parse_at_unit(ci):
    """Input that ends exactly where the bit-field storage unit of S1 starts."""
    def run(w: World):
        cfg = w.cfg(ci)
        from ..refmodel.types import layout as _layout

        offs, _, _ = _layout(S1, cfg)
        k = next(o[1] for f, o in zip(S1.fields, offs) if f.name == "b1")
        try:
            w.cs[ci].S1(data_for("S1", 0)[:k])
        except EOFError:
            return
        raise AssertionError("parse of S1 cut at the bit-field unit did not raise EOFError")
    return (f"fail_parse_at_unit(cs{ci})", run, lambda w: True)


def op_fail_expr(ci):
    """A parse that fails INSIDE the evaluation of a size expression (division by zero), with operands already pending."""
    def run(w: World):
        try:
            w.cs[ci].S3(bytes([0, 1, 2, 3, 4, 5, 6, 7, 8, 9]))
        except ZeroDivisionError:
            return
        raise AssertionError("S3 with k = 0 did not raise ZeroDivisionError")
    return (f"fail_expr(cs{ci})", run, lambda w: True)


def op_new_all_none(ci):
    """Every field is passed, all as None ("use the default"): the instance must own its defaults like any other."""
    def run(w: World):
        T = w.cs[ci].S1
        obj = T(**{f._name: None for f in T.__fields__})
        w.inst.append((ci, "S1", obj, zero_value("S1", w.cfg(ci))))
    return (f"new_all_none(cs{ci})", run, lambda w: len(w.inst) < 3)


def op_new_positional(ci):
    """Exactly one positional (non-buffer) value."""
    def run(w: World):
        obj = w.cs[ci].S1(9)
        v = zero_value("S1", w.cfg(ci))
        v["a"] = 9
        w.inst.append((ci, "S1", obj, v))
    return (f"new_positional(cs{ci})", run, lambda w: len(w.inst) < 3)


def op_mut_zero(j):
    return _mut(j, "x.z0.append(0x77)", lambda o: o.z0.append(0x77), lambda v: v["z0"].append(0x77))


def _mut(j, label, fn_impl, fn_model, tname="S1"):
    def run(w: World):
        ci, tn, obj, v = w.inst[j]
        fn_impl(obj)
        fn_model(v)
    return (f"{label}(#{j})", run, lambda w: len(w.inst) > j and w.inst[j][1] == tname)


def op_mut_scalar(j):
    return _mut(j, "x.a=0x55", lambda o: setattr(o, "a", 0x55), lambda v: v.__setitem__("a", 0x55))


def op_mut_arr(j):
    return _mut(j, "x.arr[0]=0x1234", lambda o: o.arr.__setitem__(0, 0x1234), lambda v: v["arr"].__setitem__(0, 0x1234))


def op_mut_nested(j):
    return _mut(j, "x.n.b=0x0BB0", lambda o: setattr(o.n, "b", 0x0BB0), lambda v: v["n"].__setitem__("b", 0x0BB0))


def op_mut_arrstruct(j):
    return _mut(j, "x.ns[1].a=0x77", lambda o: setattr(o.ns[1], "a", 0x77), lambda v: v["ns"][1].__setitem__("a", 0x77))


def op_mut_2d(j):
    return _mut(j, "x.m[1][0]=9", lambda o: o.m[1].__setitem__(0, 9), lambda v: v["m"][1].__setitem__(0, 9))


def op_mut_anon(j):
    return _mut(j, "x.ax=0x33", lambda o: setattr(o, "ax", 0x33), lambda v: v.__setitem__("ax", 0x33))


def op_mut_anon_arr(j):
    return _mut(j, "x.ay[1]=0x4455", lambda o: o.ay.__setitem__(1, 0x4455), lambda v: v["ay"].__setitem__(1, 0x4455))


def op_mut_grid(j):
    return _mut(j, "x.g[0][1].a=0x66", lambda o: setattr(o.g[0][1], "a", 0x66), lambda v: v["g"][0][1].__setitem__("a", 0x66))


def op_mut_cube(j):
    return _mut(j, "x.c3[1][0][1]=5", lambda o: o.c3[1][0].__setitem__(1, 5), lambda v: v["c3"][1][0].__setitem__(1, 5))


def op_redefine_const(ci):
    def run(w: World):
        w.cs[ci].load("#define NK 3")
        w.nk[ci] = 3
    return (f"redefine_NK(cs{ci})", run, lambda w: w.nk[ci] == 2)


def op_mut_union(j):
    def fm(w_v):
        pass

    def run(w: World):
        ci, tn, obj, v = w.inst[j]
        obj.u.w = 0x0102
        raw = (0x0102).to_bytes(2, w.cfg(ci).bo)
        v["u"] = {"lo": raw[0], "w": 0x0102, "raw": list(raw)}
    return (f"x.u.w=0x0102(#{j})", run, lambda w: len(w.inst) > j and w.inst[j][1] == "S1")


def op_mut_dyn(j):
    name, run, _ = _mut(j, "y.d[0]=0x4242", lambda o: o.d.__setitem__(0, 0x4242), lambda v: v["d"].__setitem__(0, 0x4242), tname="S2")
    return (name, run, lambda w: len(w.inst) > j and w.inst[j][1] == "S2" and len(w.inst[j][3]["d"]) > 0)


def op_load_extra(ci):
    def run(w: World):
        w.cs[ci].load("struct Extra { uint8 z; uint16 q[2]; };\n#define EXTRA_K 5", compiled=w.compiled)
        w.extra[ci] |= {"Extra", "EXTRA_K"}
    return (f"load_extra(cs{ci})", run, lambda w: "Extra" not in w.extra[ci])


def op_flip(ci):
    def run(w: World):
        w.endian[ci] = other(w.endian[ci])
        w.flipped[ci] = True
        w.cs[ci].endian = w.endian[ci]
    return (f"flip_endian(cs{ci})", run, lambda w: True)


ALIAS_TARGET = {0: ("uint32", 4), 1: ("uint16", 2)}


def op_add_type(ci):
    def run(w: World):
        w.cs[ci].add_type("alias_t", ALIAS_TARGET[ci][0])
        w.extra[ci].add("alias_t")
    return (f"add_type(cs{ci})", run, lambda w: "alias_t" not in w.extra[ci])


def op_load_alias_user(ci):
    def run(w: World):
        w.cs[ci].load("struct UsesAlias { alias_t v; uint8 t; };", compiled=w.compiled)
        w.extra[ci].add("UsesAlias")
    return (f"load_alias_user(cs{ci})", run, lambda w: "alias_t" in w.extra[ci] and "UsesAlias" not in w.extra[ci])


def alphabet(tier):
    ops = [op_new_default(0, "S1"), op_new_default(1, "S1"), op_new_default(0, "S2"), op_new_kw(0), op_new_kw(1),
           op_parse(0, "S1", 0), op_parse(1, "S1", 1), op_parse(0, "S2", 0), op_fail_parse(0, "S1"), op_fail_parse(0, "S2"), op_fail_expr(0), op_new_all_none(0), op_new_positional(0), op_fail_parse_at_unit(0)]
    for j in (0, 1):
        ops += [op_mut_scalar(j), op_mut_arr(j), op_mut_nested(j), op_mut_arrstruct(j), op_mut_union(j), op_mut_2d(j), op_mut_dyn(j), op_mut_anon(j), op_mut_anon_arr(j), op_mut_grid(j), op_mut_cube(j), op_mut_zero(j)]
    ops += [op_load_extra(0), op_flip(0), op_flip(1), op_add_type(0), op_add_type(1), op_load_alias_user(0), op_load_alias_user(1), op_redefine_const(0)]
    return ops


# ---------------------------------------------------------------------------------------------- invariant
def check_invariant(w: World, hist, res: JobResult):
    """After every operation: instances = their model values (and dump accordingly), fresh defaults pristine, parsing pure,
    the other cstruct object untouched."""
    bad = []
    obs = []
    for idx, (ci, tn, obj, v) in enumerate(w.inst):
        got = impl.norm(obj)
        exp = _strip_ptr(v)
        obs.append(repr(got))
        if not same(_strip_ptr(got), exp):
            bad.append(("instance:changed", f"instance #{idx} ({tn} of cs{ci}) is {got}, its own history gives {v}"))
            continue
        # dumps reflects exactly this instance's value under its cstruct's *current* endianness
        cfg = Cfg(endian=w.endian[ci], consts={"NK": w.created_nk.get(id(obj), w.nk[ci])})  # the array length was fixed when the value was made
        if tn == "S1" and v.get("z0"):
            # a grown zero-length array is refused on dump (C07) - the attempt itself (a dump that fails half-way) must leave nothing behind either
            try:
                obj.dumps()
            except Exception:  # noqa: BLE001
                pass
            continue
        try:
            out = obj.dumps()
            back, _ = decode(TYPES[tn], out + b"\x00" * 4, 0, cfg)
            if tn == "S1" and w.flipped[ci]:
                # after an endianness switch the members of an existing union value are no longer views of one buffer (which member
                # gets written is C11's business): the union field is left out of this comparison
                back = {k: x for k, x in back.items() if k != "u"}
                exp = {k: x for k, x in exp.items() if k != "u"}
            if not same(_strip_ptr(back), exp):
                bad.append(("instance:dumps", f"instance #{idx} ({tn} of cs{ci}, endian {cfg.endian}) dumps {out.hex()} which decodes to {back}, value is {v}"))
        except Exception as e:  # noqa: BLE001
            bad.append(("instance:dumps-raises", f"instance #{idx}: {impl.exc_sig(e)} {e!r}"))
    for ci in (0, 1):
        cfg = w.cfg(ci)
        for tn in ("S1", "S2", "S3"):
            T = getattr(w.cs[ci], tn)
            if tn != "S3":
                d = impl.norm(T())
                if not same(_strip_ptr(d), _strip_ptr(zero_value(tn, cfg))):
                    bad.append(("default:not-pristine", f"a fresh {tn}() of cs{ci} is {d}"))
                obs.append(repr(d))
            if tn == "S1":
                forms = {"all fields None": lambda: T(**{f._name: None for f in T.__fields__}), "one positional value": lambda: T(0)}
                for fname_, mkf in forms.items():
                    d2 = impl.norm(mkf())
                    if not same(_strip_ptr(d2), _strip_ptr(zero_value(tn, cfg))):
                        bad.append(("default:not-pristine", f"a fresh S1 of cs{ci} constructed with {fname_} is {d2}"))
            data = data_for(tn, 2)
            exp, end = decode(TYPES[tn], data, 0, cfg)
            st = io.BytesIO(data)
            try:
                p = impl.norm(T(st))
                if not same(_strip_ptr(p), _strip_ptr(exp)) or st.tell() != end:
                    bad.append(("parse:impure", f"{tn} of cs{ci} (endian {cfg.endian}) parses {data.hex()} as {p}@{st.tell()}, a fresh cstruct gives {exp}@{end}"))
            except Exception as e:  # noqa: BLE001
                bad.append(("parse:impure-raises", f"{tn} of cs{ci}: {impl.exc_sig(e)} {e!r}"))
        # the description of every type is what was declared, whatever was parsed, dumped or constructed before
        for tname_, mt in (("S1", S1), ("S2", S2), ("n_t", N), ("u_t", U)):
            T = getattr(w.cs[ci], tname_)
            want = [f.name for f in mt.fields if f.name is not None]
            got_f = [f._name for f in T.__fields__ if not getattr(f.type, "__anonymous__", False) or f._name in want]
            if got_f != want or [k for k in T.fields if k in want][: len(want)] != [k for k in want if k in T.fields]:
                bad.append(("type:description", f"cs{ci}.{tname_}: field order is now {[f._name for f in T.__fields__]}, declared {want}"))
        try:
            pu = w.cs[ci].u_t(0x55)
            if (int(pu.lo), pu.dumps()[:1]) != (0x55, b"\x55"):
                bad.append(("type:description", f"cs{ci}.u_t(0x55) (first declared member lo) gives {impl.norm(pu)}, dumps {pu.dumps().hex()}"))
        except Exception as e:  # noqa: BLE001
            bad.append(("type:description", f"cs{ci}.u_t(0x55): {impl.exc_sig(e)} {e!r}"))
        if "alias_t" in w.extra[ci]:
            tgt, tsz = ALIAS_TARGET[ci]
            try:
                if w.cs[ci].resolve("alias_t") is not w.cs[ci].resolve(tgt) or len(w.cs[ci].resolve("alias_t")) != tsz:
                    bad.append(("cstruct:alias", f"cs{ci}: alias_t resolves to {w.cs[ci].resolve('alias_t')!r}, it was defined as {tgt}"))
                if "UsesAlias" in w.extra[ci] and len(w.cs[ci].UsesAlias) != tsz + 1:
                    bad.append(("cstruct:alias", f"cs{ci}: struct UsesAlias {{ alias_t v; uint8 t; }} has size {len(w.cs[ci].UsesAlias)}, alias_t is {tgt}"))
            except Exception as e:  # noqa: BLE001
                bad.append(("cstruct:alias-raises", f"cs{ci}: {impl.exc_sig(e)} {e!r}"))
        for name in ("Extra", "EXTRA_K", "alias_t", "UsesAlias"):
            has = name in w.cs[ci].typedefs or name in w.cs[ci].consts
            if has != (name in w.extra[ci]):
                bad.append(("cstruct:leak", f"cs{ci} {'has' if has else 'lacks'} {name!r} although it was {'never ' if has else ''}added to it"))
        obs.append(w.endian[ci])
    for kind, detail in bad:
        res.violations.append(Violation(kind, f"{kind}|{hist[-1] if hist else ''}", {"history": list(hist), "compiled": w.compiled}, f"history {list(hist)} (compiled={w.compiled}): {detail}",
                                        {"compiled": w.compiled, "depth": len(hist)}))
    return tuple(obs), not bad


def _strip_ptr(v):
    return v


def explore(prefix_ops, depth, compiled, res: JobResult, ops):
    """Depth-first enumeration of all applicable operation sequences extending `prefix_ops` up to `depth` operations.
    Live objects cannot be copied, so every sequence is replayed on fresh worlds (DESIGN 5.1)."""
    seen = set()

    def run_seq(seq):
        w = World(compiled)
        hist = []
        for i in seq:
            name, fn, applicable = ops[i]
            if not applicable(w):
                return None, None, False
            try:
                fn(w)
            except Exception as e:  # noqa: BLE001
                res.violations.append(Violation("op:raises", f"op:raises|{name}", {"history": hist + [name], "compiled": compiled}, f"history {hist + [name]}: {impl.exc_sig(e)} {e!r}"))
                return None, None, False
            hist.append(name)
            res.transitions += 1
        state, ok = check_invariant(w, hist, res)
        return w, state, ok

    frontier = [tuple(prefix_ops)]
    while frontier:
        seq = frontier.pop()
        w, state, ok = run_seq(seq)
        if w is None:
            continue
        res.evaluations += 1
        res.traces += 1
        if state not in seen:
            seen.add(state)
        if len(seq) >= 2:
            res.nontrivial += 1
        if ok and len(seq) < depth:
            for i in range(len(ops)):
                frontier.append(seq + (i,))
    res.states += len(seen)


REDUCED = ["new_default(cs0,S1)", "new_kw(cs0)", "parse(cs0,S1,0)", "fail_parse(cs0,S1)", "x.arr[0]=0x1234(#0)", "x.n.b=0x0BB0(#0)", "x.ns[1].a=0x77(#0)",
           "x.u.w=0x0102(#0)", "x.ay[1]=0x4455(#0)", "flip_endian(cs0)", "load_extra(cs0)", "x.g[0][1].a=0x66(#0)", "redefine_NK(cs0)", "parse(cs0,S2,0)"]


def jobs(tier):
    ops = alphabet(tier)
    depth = 3 if tier == "quick" else 4
    out = []
    if tier == "quick":
        for compiled in (False, True):
            for i in range(len(REDUCED)):
                out.append(("reduced", compiled, (i,), 4))
    for compiled in (False, True):
        for i in range(len(ops)):
            if tier == "quick":
                out.append((tier, compiled, (i,), depth))
            else:
                for j in range(len(ops)):
                    out.append((tier, compiled, (i, j), depth))
    return out


def run(job) -> JobResult:
    tier, compiled, prefix, depth = job
    res = JobResult()
    ops = alphabet(tier)
    if tier == "reduced":
        ops = [o for o in ops if o[0] in REDUCED]
    explore(prefix, depth, compiled, res, ops)
    if prefix == (0,) or prefix == (0, 0):
        res.samples.append({"history": [ops[0][0], ops[10][0], ops[0][0]], "alphabet": [o[0] for o in ops]})
    return res


def replay(case):
    res = JobResult()
    ops = alphabet("thorough")
    names = [o[0] for o in ops]
    seq = tuple(names.index(h) for h in case["history"])
    w = World(case.get("compiled", False))
    hist = []
    for i in seq:
        name, fn, applicable = ops[i]
        try:
            fn(w)
        except Exception as e:  # noqa: BLE001
            res.violations.append(Violation("op:raises", "", case, f"{e!r}"))
            return res.violations
        hist.append(name)
        check_invariant(w, hist, res)
    return res.violations


def meta(tier):
    return {
        "rule": "explicit-state exploration: all applicable sequences of <=3 (thorough 4) operations from an alphabet of 28 (construct default / with "
        "kwargs, parse, failing parse, mutate scalar / array element / nested struct / element of array of structs / 2-D element / union member / "
        "dynamic array element on instance #0 or #1, load more definitions, flip endianness, add_type) over two cstruct objects (little/big endian) "
        "and <=3 live instances, both readers; every sequence is replayed on fresh objects; invariant after every operation: each instance equals "
        "its own model value and dumps accordingly, fresh defaults are pristine, parsing equals the model's pure decode, the other cstruct "
        "object has nothing it was not given; states = distinct observation tuples; non-trivial = histories of >=2 operations",
        "bounds": {"depth": 3 if tier == "quick" else 4, "operations": len(alphabet(tier)), "cstruct_objects": 2, "live_instances": 3},
        "assumptions": ["instances follow their cstruct object's current endianness when dumped"],
    }
