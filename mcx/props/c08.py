"""C08 - truncated or failing input never fabricates data (fault enumeration: every cut point, every read call)."""
from __future__ import annotations

import io

from .. import impl
from .. import structcase as sc
from ..explore.faults import FaultyStream, InjectedFault
from ..gen import defs
from ..impl import same
from ..refmodel.types import Cfg, RefReject
from ..runner import JobResult, Violation

ID = "C08"
LEVEL = "fault_enumeration"
TASKS_PER_CHILD = 6
FAULT_KINDS = ("short", "empty", "raise")


def jobs(tier):
    return [("standalone", tier), ("lazy", tier), ("dynunion-faults", tier)] + [(tier, c) for c in defs.chunks(defs.space(tier, "medium"), 24)]


def _parse_stream(T, stream):
    try:
        v = T._read(stream) if False else T(stream)
        return True, impl.norm(v), None
    except Exception as e:  # noqa: BLE001
        return False, None, e


def _eof_prefix_ok(full: dict, got: dict, eof_name: str) -> bool:
    """[EOF] arrays: every returned element must be a genuine element of the full decoding."""
    for k, v in got.items():
        if k == eof_name:
            fv = full[k]
            if isinstance(fv, (bytes, str, list)):
                if not (len(v) <= len(fv) and same(fv[: len(v)], v)):
                    return False
            continue
        if not same(full.get(k), v):
            return False
    return True


def check_case(names, endian, align, res: JobResult, tier="quick", only_input=None):
    st, text = sc.build(names)
    cfg = Cfg(endian=endian, align=align)
    case = sc.case_json(names, endian, align)
    try:
        ins = sc.inputs(st, cfg, dev=1, raw=False, limit=5 if tier == "quick" else 16)
    except RefReject:
        return
    L = sc.Loaded(text, endian, align)
    res.transitions += 2
    eof_tail = sc.has_eof_tail(st)
    eof_name = st.fields[-1].name if eof_tail else None

    def viol(kind, detail, reader, inp, **kw):
        feats = sc.features(names, endian, align, reader, **{k: v for k, v in kw.items() if k != "extra"})
        c = dict(case)
        c.update({"reader": reader, "input": inp.data.hex(), "label": inp.label})
        c.update(kw.get("extra", {}))
        res.violations.append(Violation(kind, f"{kind}|align={align}|{reader}|{sc.cluster_tail(names)}", c, f"{text!r} {endian} in={inp.data.hex()} " + detail, feats))

    for compiled in (False, True):
        if compiled in L.err:
            continue
        reader = "compiled" if compiled else "interpreted"
        T = L.T[compiled]
        fresh_full = {}
        for inp in ins:
            if inp.status != "ok":
                continue
            if only_input is not None and inp.data.hex() != only_input:
                continue
            full = sc.parse(T, inp.data)
            res.transitions += 1
            if not full.ok:
                continue  # C02 reports this
            if not same(full.value, inp.value):
                continue  # C02 reports this
            mask = inp.mask
            n = min(inp.consumed, len(inp.data))
            last_data = max((i for i in range(len(mask)) if mask[i]), default=-1)
            if eof_tail:
                # cuts inside the [EOF] array change its extent by definition: only cuts before it are "premature"
                v_wo, end_wo, mask_wo = _decode_without_tail(st, inp, cfg)
                last_data = max((i for i in range(len(mask_wo)) if mask_wo[i]), default=-1)
            # ---------------- (a) every cut point, as bytes and as stream
            failures = 0
            for k in range(n):
                cut = inp.data[:k]
                for kind in ("bytes", "stream"):
                    res.evaluations += 1
                    res.states += 1
                    res.transitions += 1
                    ok, val, exc = _parse_stream(T, cut if kind == "bytes" else io.BytesIO(cut))
                    if k <= last_data:
                        res.nontrivial += 1
                        if ok:
                            viol("cut:fabricated", f"cut at {k} (last data byte {last_data}) via {kind}: returned {val}; full={inp.value}", reader, inp, extra={"cut": k})
                        elif not isinstance(exc, EOFError):
                            viol("cut:wrong-exception", f"cut at {k} via {kind}: raised {impl.exc_sig(exc)} {exc!r}, expected EOFError", reader, inp, exc=impl.exc_sig(exc), extra={"cut": k})
                        else:
                            failures += 1
                    elif ok:
                        good = _eof_prefix_ok(inp.value, val, eof_name) if eof_tail else same(val, inp.value)
                        if not good:
                            viol("cut:different-value", f"cut at {k} (only padding removed) via {kind}: returned {val}; full={inp.value}", reader, inp, extra={"cut": k})
                    else:
                        failures += 1
                if k in (0, n // 2, n - 1) or inp.label == "base":
                    # residue: the same type objects parse the full input again exactly as before
                    again = sc.parse(T, inp.data)
                    res.transitions += 1
                    if not (again.ok and same(again.value, full.value) and again.tell == full.tell):
                        viol("residue:after-cut", f"after failing at cut {k}: full parse gives {again.value if again.ok else again.exc!r}, before {full.value}", reader, inp, extra={"cut": k})
            # ---------------- (b) stream faults at every read call (not for [EOF] tails: their extent is the end of input)
            if not eof_tail:
                probe = FaultyStream(inp.data)
                ok0, val0, exc0 = _parse_stream(T, probe)
                nreads = len(probe.log)
                tell0 = probe.tell()
                if ok0 and same(val0, full.value):
                    for i in range(nreads):
                        for fk in FAULT_KINDS:
                            fs = FaultyStream(inp.data, i, fk)
                            ok, val, exc = _parse_stream(T, fs)
                            res.evaluations += 1
                            res.states += 1
                            res.transitions += 1
                            if fs.injected is None:
                                continue
                            pos, want, got, avail = fs.injected
                            if fk == "raise":
                                res.nontrivial += 1
                                if ok:
                                    viol("fault:oserror-swallowed", f"OSError injected at read #{i} (pos {pos}, want {want}) but parse returned {val}", reader, inp, fault=fk, extra={"read": i, "fault": fk})
                                continue
                            if want is None or want < 0:
                                continue  # read-to-end requests: extent is the end of input
                            withheld = range(pos + got, pos + min(want, avail))
                            if not len(withheld):
                                continue  # nothing was withheld (0/1-byte availability): not a fault
                            data_withheld = any(j < len(mask) and mask[j] for j in withheld)
                            if data_withheld:
                                res.nontrivial += 1
                                if ok:
                                    viol("fault:short-read-fabricated", f"{fk} read #{i} (pos {pos}, want {want}, got {got}) withheld data bytes but parse returned {val}; fault-free={val0}", reader, inp, fault=fk, extra={"read": i, "fault": fk})
                            elif ok and not same(val, val0):
                                viol("fault:short-read-different-value", f"{fk} read #{i} (pos {pos}, want {want}, got {got}) withheld only padding; parse returned {val}, fault-free {val0}", reader, inp, fault=fk, extra={"read": i, "fault": fk})
                    again = sc.parse(T, inp.data)
                    if not (again.ok and same(again.value, full.value) and again.tell == full.tell):
                        viol("residue:after-fault", f"after injected faults: full parse gives {again.value if again.ok else again.exc!r}, before {full.value}", reader, inp)
                    if tier == "thorough" and nreads <= 12:
                        _pairs(T, inp, nreads, mask, val0, viol, reader, res)
            res.traces += 1
    if len(res.samples) < 2 and ins:
        res.samples.append({"definition": text, "endian": endian, "align": align, "input": ins[0].data.hex(), "mask": (ins[0].mask or b"").hex(), "cuts": ins[0].consumed})


class DoubleFaultStream(FaultyStream):
    def __init__(self, data, i, ki, j, kj):
        super().__init__(data, i, ki)
        self.second = (j, kj)
        self.injections = []

    def read(self, n=-1):
        idx = len(self.log)
        if idx == self.second[0] and idx != self.fault_at:
            save = (self.fault_at, self.kind)
            self.fault_at, self.kind = self.second
            try:
                return super().read(n)
            finally:
                self.injections.append(self.injected)
                self.fault_at, self.kind = save
        r = super().read(n)
        if idx == self.fault_at:
            self.injections.append(self.injected)
        return r


def _pairs(T, inp, nreads, mask, val0, viol, reader, res):
    """Deviation bound 2: all pairs of short reads i<j; a returned value must be the fault-free value unless data was withheld."""
    for i in range(nreads):
        for j in range(i + 1, nreads):
            fs = DoubleFaultStream(inp.data, i, "short", j, "short")
            ok, val, exc = _parse_stream(T, fs)
            res.evaluations += 1
            res.transitions += 1
            withheld_data = False
            for inj in fs.injections:
                if inj is None:
                    continue
                pos, want, got, avail = inj
                if want is None or want < 0:
                    withheld_data = True
                    continue
                if any(k < len(mask) and mask[k] for k in range(pos + got, pos + min(want, avail))):
                    withheld_data = True
            if ok and not withheld_data and not same(val, val0):
                viol("fault:pair-different-value", f"short reads #{i},#{j} withheld only padding; parse returned {val}, fault-free {val0}", reader, inp, extra={"reads": [i, j]})
            if ok and withheld_data and fs.injections and all(x is not None for x in fs.injections):
                # both faults withheld something and at least one data byte: must not return
                if all(len(range(x[0] + x[2], x[0] + min(x[1], x[3]))) for x in fs.injections if x[1] is not None and x[1] >= 0):
                    viol("fault:pair-fabricated", f"short reads #{i},#{j} withheld data bytes but parse returned {val}", reader, inp, extra={"reads": [i, j]})


def _decode_without_tail(st, inp, cfg):
    from ..refmodel.codec import decode_with_mask
    from ..refmodel.types import TStruct

    head = TStruct(st.name, st.fields[:-1])
    return decode_with_mask(head, inp.data, cfg)


def standalone(tier) -> JobResult:
    """Stand-alone types cs.T, cs.T[2], cs.T[] (no enclosing structure): every cut point of an accepted encoding."""
    from dissect.cstruct import cstruct

    from ..gen import values
    from ..refmodel import codec
    from ..refmodel.types import SCALARS, TArr, TLeb, TVoid, TFloat

    res = JobResult()
    for endian in "<>":
        cfg = Cfg(endian=endian)
        cs = cstruct(endian=endian)
        for name, t in SCALARS.items():
            if isinstance(t, TVoid):
                continue
            forms = [("", t), ("[2]", TArr(t, 2))]
            if not isinstance(t, TFloat):
                forms.append(("[]", TArr(t, None)))
            for suffix, mt in forms:
                T = getattr(cs, name)
                if suffix == "[2]":
                    T = T[2]
                elif suffix == "[]":
                    T = T[None]
                for val in values.value_alphabet(mt, cfg, {})[:6]:
                    data = codec.encode(mt, val, cfg)
                    try:
                        full = impl.norm(T(io.BytesIO(data + sc.SENTINEL)))
                    except Exception:  # noqa: BLE001
                        continue  # C05/C07 report decoding problems
                    for k in range(len(data)):
                        for kind in ("bytes", "stream"):
                            res.evaluations += 1
                            res.states += 1
                            res.transitions += 1
                            res.nontrivial += 1
                            cut = data[:k]
                            if kind == "bytes" and name == "char" and suffix == "" and k == 1:
                                continue
                            ok, got, exc = _parse_stream(T, cut if kind == "bytes" else io.BytesIO(cut))
                            case = {"standalone": name + suffix, "endian": endian, "input": data.hex(), "cut": k, "kind": kind}
                            if ok:
                                res.violations.append(Violation("standalone:fabricated", f"standalone:fabricated|{name}{suffix}", case,
                                    f"{name}{suffix} {endian} in={data.hex()} cut at {k} via {kind}: returned {got!r}; full={full!r}", {"type": name + suffix}))
                            elif not isinstance(exc, EOFError):
                                res.violations.append(Violation("standalone:wrong-exception", f"standalone:wrong-exception|{name}{suffix}", case,
                                    f"{name}{suffix} {endian} in={data.hex()} cut at {k} via {kind}: raised {impl.exc_sig(exc)} {exc!r}, expected EOFError", {"type": name + suffix, "exc": impl.exc_sig(exc)}))
                res.traces += 1
    res.samples.append({"standalone": "every built-in scalar as T, T[2], T[] x every cut point"})
    return res


def lazy(tier) -> JobResult:
    """Lazily parsed pointer targets: a dereference whose target is cut off raises EOFError, fabricates nothing, and leaves the stream and the
    types as they were (records parsed afterwards from the same stream equal those of a run without the failed dereference)."""
    from dissect.cstruct import cstruct

    res = JobResult()
    targets = {"char": b"name\0", "uint16": b"\x34\x12", "in_t": b"\x07\x09", "uint32": b"\x01\x02\x03\x04", "wchar": b"a\0", "uint8[3]": b"\x01\x02\x03"}
    for tname, tbytes in targets.items():
        for ptr in ("uint8", "uint16", "uint32"):
            for endian in "<>":
                for compiled in (False, True):
                    cs = cstruct(endian=endian, pointer=ptr)
                    base, _, dims = tname.partition("[")
                    decl = f"{base} (*p)[{dims}" if dims else f"{tname} *p"
                    try:
                        cs.load("struct in_t { uint8 p; uint8 q; }; struct R { uint8 id; " + decl + "; uint8 t; };", compiled=compiled)
                    except Exception:  # noqa: BLE001
                        continue
                    psz = cs.pointer.size
                    rec = lambda i, a: bytes([i]) + a.to_bytes(psz, "little" if endian == "<" else "big") + bytes([0x70 + i])  # noqa: E731
                    rsz = 2 + psz
                    taddr = 2 * rsz
                    whole = rec(1, taddr) + rec(2, taddr) + tbytes
                    for cut in range(taddr, len(whole) + 1):
                        data = whole[:cut]
                        truncated = cut < len(whole)
                        case = {"lazy": tname, "ptr": ptr, "endian": endian, "compiled": compiled, "cut": cut}
                        res.evaluations += 1
                        res.states += 1
                        res.transitions += 3
                        res.nontrivial += 1
                        try:
                            ctl = io.BytesIO(whole)
                            c1 = cs.R(ctl)
                            c2 = impl.norm(cs.R(ctl))
                            good = impl.norm(c1.p.dereference())
                            s = io.BytesIO(data)
                            r1 = cs.R(s)
                            p0 = s.tell()
                            try:
                                got = impl.norm(r1.p.dereference())
                                exc = None
                            except Exception as e:  # noqa: BLE001
                                got, exc = None, e
                            p1 = s.tell()
                            try:
                                r2 = impl.norm(cs.R(s))
                            except Exception as e:  # noqa: BLE001
                                r2 = f"{impl.exc_sig(e)} {e!r}"
                        except Exception as e:  # noqa: BLE001
                            res.violations.append(Violation("lazy:raises", f"lazy:raises|{tname}", case, f"{tname} via {ptr} pointer, input cut at {cut}: {impl.exc_sig(e)} {e!r}", {"target": tname}))
                            continue
                        what = f"struct R {{ uint8 id; {decl}; uint8 t; }} {endian} compiled={compiled}, two records then the target {tbytes.hex()}, input cut at {cut}"
                        if truncated and exc is None:
                            res.violations.append(Violation("lazy:fabricated", f"lazy:fabricated|{tname}", case, f"{what}: dereference returned {got!r} from a truncated / unterminated target", {"target": tname}))
                        elif truncated and not isinstance(exc, EOFError):
                            res.violations.append(Violation("lazy:wrong-exception", f"lazy:wrong-exception|{tname}", case, f"{what}: {impl.exc_sig(exc)} {exc!r}, expected EOFError", {"target": tname}))
                        elif not truncated and (exc is not None or not same(got, good)):
                            res.violations.append(Violation("lazy:complete-target", f"lazy:complete-target|{tname}", case, f"{what}: {got!r} / {exc!r}, expected {good!r}", {"target": tname}))
                        if p1 != p0:
                            res.violations.append(Violation("residue:after-dereference", f"residue:after-dereference|{tname}", case, f"{what}: the dereference moved the stream from {p0} to {p1}", {"target": tname}))
                        elif not same(r2, c2):
                            res.violations.append(Violation("residue:after-dereference", f"residue:after-dereference|{tname}", case, f"{what}: next record {r2}, without the failed dereference {c2}", {"target": tname}))
    res.samples.append({"lazy": list(targets), "rule": "two records + pointer target; every cut inside the target"})
    return res


DYN_FAULT_DEFS = [
    ("union U { uint8 n; char d[4]; struct { uint8 k; char s[k]; } v; }; struct T { U u; uint16 after; };", b"\x03abc\x11\x22"),
    ("union U { uint8 n; char s[]; }; struct T { uint8 h; U u; uint8 t; };", b"\x07ab\x00\x09"),
    ("struct dyn_t { uint8 n; char d[n]; }; union U { dyn_t d; uint16 w; }; struct T { U u; uint8 t; uint8 t2; };", b"\x02xy\x05\x06"),
    ("union U { uint8 n; uleb128 v; }; struct T { U u; uint16 after; };", b"\x85\x01\x33\x44"),
]


def dynunion_faults(tier) -> JobResult:
    """Dynamically sized unions (packed: every byte of the extent is data of some member): every cut and every short / empty / failing read call.
    Whatever withholds a byte must raise; whatever returns must equal the fault-free value and leave the stream where the fault-free run leaves it."""
    from dissect.cstruct import cstruct

    res = JobResult()
    for text, data in DYN_FAULT_DEFS:
        for endian in "<>":
            for compiled in (False, True):
                cs = cstruct(endian=endian)
                cs.load(text, compiled=compiled)
                T = cs.T
                probe = FaultyStream(data + b"\xee")
                ok0, val0, exc0 = _parse_stream(T, probe)
                tell0 = probe.tell()
                nreads = len(probe.log)
                case0 = {"dynunion": text, "endian": endian, "compiled": compiled}
                if not ok0:
                    res.violations.append(Violation("dynunion:raises", "dynunion:raises", case0, f"{text!r} on {data.hex()}: {impl.exc_sig(exc0)} {exc0!r}"))
                    continue
                for k in range(tell0):
                    res.evaluations += 1
                    res.states += 1
                    res.nontrivial += 1
                    ok, val, exc = _parse_stream(T, io.BytesIO(data[:k]))
                    if ok:
                        res.violations.append(Violation("cut:fabricated", "dynunion|cut:fabricated", dict(case0, cut=k), f"{text!r} on {data.hex()} cut at {k} (extent {tell0}): returned {val}"))
                for i in range(nreads):
                    for fk in FAULT_KINDS:
                        fs = FaultyStream(data + b"\xee", i, fk)
                        ok, val, exc = _parse_stream(T, fs)
                        res.evaluations += 1
                        res.states += 1
                        res.transitions += 1
                        if fs.injected is None:
                            continue
                        pos, want, got, avail = fs.injected
                        if want is None or want < 0:
                            continue
                        withheld = fk == "raise" or got < min(want, avail)
                        if not withheld:
                            continue
                        res.nontrivial += 1
                        if ok and (fk == "raise" or pos + got < tell0):
                            res.violations.append(Violation("fault:short-read-fabricated", "dynunion|fault:short-read-fabricated", dict(case0, read=i, fault=fk),
                                f"{text!r} on {data.hex()}: {fk} at read #{i} (pos {pos}, want {want}, got {got}) but parse returned {val} and left the stream at {fs.tell()}; fault-free: {val0} at {tell0}"))
                again = sc.parse(T, data + b"\xee")
                if not (again.ok and same(again.value, val0)):
                    res.violations.append(Violation("residue:after-fault", "dynunion|residue", case0, f"{text!r}: after the injected faults the full input parses as {again.value if again.ok else again.exc!r}"))
    res.samples.append({"dynamic_union_faults": [d[0] for d in DYN_FAULT_DEFS]})
    return res


def run(job) -> JobResult:
    if job[0] == "standalone":
        return standalone(job[1])
    if job[0] == "dynunion-faults":
        return dynunion_faults(job[1])
    if job[0] == "lazy":
        return lazy(job[1])
    res = JobResult()
    tier, chunk = job
    for names in chunk:
        for endian in "<>":
            for align in (False, True):
                sc.guarded(res, ID, tuple(names), endian, align, lambda: check_case(tuple(names), endian, align, res, tier))
    return res


def replay(case):
    if "standalone" in case:
        return [v for v in standalone("thorough").violations if v.case == case]
    if "lazy" in case:
        return [v for v in lazy("thorough").violations if v.case == case]
    if "dynunion" in case:
        return [v for v in dynunion_faults("thorough").violations if v.case == case]
    res = JobResult()
    check_case(tuple(case["atoms"]), case["endian"], case["align"], res, "thorough", only_input=case.get("input"))
    return res.violations


def meta(tier):
    return {
        "rule": "case = (definition, endian, align, reader, accepted model-encoded input, fault); faults = every cut point k of the input (as bytes "
        "and as stream) and, at every read() call of the fault-free run, {short-by-one, empty, OSError} (thorough: also all pairs of short reads); "
        "oracle from the model's data-bit mask: a cut at or before the last data-carrying byte must raise EOFError, a withheld data byte must "
        "raise, an injected OSError must propagate, anything returned must equal the fault-free value; after failures the same types must "
        "parse the full input as before; lazily parsed pointer targets (6 target types x 3 pointer widths, every cut inside the target): EOFError, stream position and following records unchanged; non-trivial = the fault removed a data-carrying byte or injected an error",
        "bounds": {"definitions": "D(wide,2)+[EOF] tails + stand-alone scalars/arrays" if tier == "quick" else "D(wide,2)+D(core,3)+[EOF] tails+long-run + stand-alone scalars/arrays", "fault_bound": 1 if tier == "quick" else 2, "inputs_per_definition": 5 if tier == "quick" else 16},
        "assumptions": ["[EOF] arrays: only cuts before the array are premature; returned elements must be a prefix of the full decoding",
                        "read-to-end requests (read(-1)) are not short-read faulted"],
    }
