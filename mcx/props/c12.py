"""C12 - enums and flags preserve every underlying value and number their members like C."""
from __future__ import annotations

import io
import itertools

from .. import impl
from ..refmodel import expr as rexpr
from ..runner import JobResult, Violation

ID = "C12"
LEVEL = "model_checking"
TASKS_PER_CHILD = 50

SPECS = ["auto", "=0", "=1", "=2", "=5", "=0x10", "=-1", "=PREV+1", "=PREV<<1", "=1<<3", "=DUP", "=FIRST|4", "=3"]
BASES = [("uint8", 1, False), ("int8", 1, True), ("uint16", 2, False), ("int16", 2, True), ("uint32", 4, False), ("int64", 8, True), (None, 4, False), ("uint24", 3, False)]


def ref_members(kind, specs):
    """C numbering: enum continues with previous+1, flag with the next power of two above the previous value's top bit."""
    vals = []
    nextval = 1 if kind == "flag" else 0
    for i, sp in enumerate(specs):
        if sp == "auto":
            if nextval is None:
                return None
            v = nextval
        elif sp in ("=PREV+1", "=PREV<<1", "=DUP", "=FIRST|4"):
            if i == 0:
                return None
            p = vals[i - 1][1]
            if sp == "=FIRST|4":
                if vals[0][1] < 0:
                    return None
                v = vals[0][1] | 4
            elif sp == "=PREV+1":
                v = p + 1
            elif sp == "=PREV<<1":
                if p < 0:
                    return None
                v = p << 1
            else:
                v = p
        else:
            v = rexpr.evaluate(sp[1:])
        vals.append((f"M{i}", v))
        if kind == "flag":
            nextval = (1 << v.bit_length()) if v >= 0 else None
        else:
            nextval = v + 1
    return vals


def text_of(kind, base, specs, style, name="E"):
    parts = []
    for i, sp in enumerate(specs):
        if sp == "auto":
            parts.append(f"M{i}")
        elif sp == "=PREV+1":
            parts.append(f"M{i} = M{i-1} + 1")
        elif sp == "=PREV<<1":
            parts.append(f"M{i} = M{i-1} << 1")
        elif sp == "=DUP":
            parts.append(f"M{i} = M{i-1}")
        elif sp == "=FIRST|4":
            parts.append(f"M{i} = M0 | 4")
        else:
            parts.append(f"M{i} = {sp[1:]}")
    head = f"{kind} {name}" + (f" : {base}" if base else "")
    if style == "oneline":
        return f"{head} {{ " + ", ".join(parts) + " };"
    if style == "multiline":
        return f"{head} {{\n    " + ",\n    ".join(parts) + "\n};"
    # a line break inside a member (next to '=') and a trailing comma
    return f"{head} {{\n    " + ",\n    ".join(p.replace(" = ", "\n        = ") for p in parts) + ",\n};"


def value_set(size, signed, mem, kind):
    lo, hi = (-(1 << (8 * size - 1)), (1 << (8 * size - 1)) - 1) if signed else (0, (1 << (8 * size)) - 1)
    if size == 1:
        vals = set(range(lo, hi + 1))
    else:
        vals = {lo, hi, 0, 1, 2, 3, 0x7F, 0x80, 0xFF, 0x100, hi - 1, lo + 1, -1 if signed else 1}
        vals |= {v for _, v in mem} | {v + 1 for _, v in mem} | {mem[0][1] | mem[-1][1]}
        if kind == "flag":
            allbits = 0
            for _, v in mem:
                if v > 0:
                    allbits |= v
            vals |= {allbits, allbits << 1, allbits | (1 << (8 * size - 2))}
        vals |= {(1 << (8 * size - 1)) - 1, 1 << (8 * size - 2)}
    return sorted(v for v in vals if lo <= v <= hi), lo, hi


def check_decl(kind, base_t, specs, res: JobResult, tier):
    from dissect.cstruct import cstruct

    base, size, signed = base_t
    mem = ref_members(kind, specs)
    if mem is None:
        res.extra["outside_domain"] += 1
        return
    vals, lo, hi = value_set(size, signed, mem, kind)
    if any(not (lo <= v <= hi) for _, v in mem):
        res.extra["member_out_of_range"] += 1
        return
    if kind == "flag" and any(v < 0 for _, v in mem):
        res.extra["negative_flag_member"] += 1
        return
    case0 = {"kind": kind, "base": base, "specs": list(specs)}

    def issue(k, d, value=None, **kw):
        feats = {"kind": kind, "base": base or "default", "signed": signed, "negative_value": value is not None and value < 0, "nmembers": len(specs)}
        feats.update(kw)
        c = dict(case0)
        if value is not None:
            c["value"] = value
        res.violations.append(Violation(k, f"{k}|{kind}|{'signed' if signed else 'unsigned'}", c, f"{text_of(kind, base, specs, 'oneline')!r}: " + str(d)[:400], feats))

    bitf = size <= 2
    sdef = "\nstruct DynE { uint8 n; E d[n]; };\nstruct EofE { E x[EOF]; };\nstruct S { E e; E arr[2]; E nt[]; " + ("E lo : 4; E hi : 4; " if size == 1 else ("E lo : 4; E hi : 12; " if size == 2 else "")) + "uint8 t; };"
    for style in ("oneline", "multiline", "broken"):
        text = text_of(kind, base, specs, style)
        for endian in "<>":
            for compiled in (False, True):
                if style != "oneline" and compiled:
                    continue
                cs = cstruct(endian=endian)
                res.transitions += 1
                try:
                    cs.load(text + sdef, compiled=compiled)
                except Exception as e:  # noqa: BLE001
                    issue("load:raises", f"{style} {impl.exc_sig(e)} {e!r}")
                    continue
                if bitf:
                    # bit-fields of the enum type behind a dynamically sized member of an aligned structure (placed and written at run time)
                    try:
                        cs.load("struct SD { uint8 n; char d[n]; E lo : 4; E hi : " + ("4" if size == 1 else "12") + "; uint8 t; };", compiled=compiled, align=True)
                    except Exception as e:  # noqa: BLE001
                        issue("load:raises", f"aligned dynamic struct: {impl.exc_sig(e)} {e!r}")
                        continue
                E = cs.E
                got = [(k, v.value) for k, v in E.__members__.items()]
                res.evaluations += 1
                res.states += 1
                if got != mem:
                    issue("numbering", f"{style}: members {got}, C rule gives {mem}", style=style)
                    continue
                if any(a != "auto" for a in specs):
                    res.nontrivial += 1
                # alias members stay distinct members, equal in value
                for (n1, v1), (n2, v2) in itertools.combinations(mem, 2):
                    if v1 == v2 and (E[n1] is E[n2] or E[n1].name == E[n2].name):
                        issue("alias:merged", f"members {n1} and {n2} (both {v1}) are the same member")
                    if v1 == v2:
                        # same-class members with the same value compare equal - also to a parsed value
                        parsed = E(v1)
                        if not (E[n1] == E[n2] and E[n2] == E[n1] and parsed == E[n1] and parsed == E[n2] and E[n1] == parsed and not (E[n1] != E[n2])):
                            issue("alias:not-equal", f"members {n1} and {n2} (both {v1}) / a parsed {v1} do not all compare equal")
                if style != "oneline":
                    continue
                bo = "little" if endian == "<" else "big"
                for v in vals:
                    b = v.to_bytes(size, bo, signed=signed)
                    res.evaluations += 1
                    res.states += 1
                    res.transitions += 4
                    try:
                        x = E(b)
                        y = E(io.BytesIO(b))
                        if x.value != v or int(x) != v:
                            issue("value:not-preserved", f"underlying {v} ({b.hex()}) parsed as value {x.value}", v)
                            continue
                        d1, d2 = x.dumps(), E.dumps(x)
                        if d1 != b or d2 != b:
                            issue("dumps:differs", f"value {v}: dumps {d1.hex()} / {d2.hex()}, read from {b.hex()}", v)
                        if not (x == v) or not (v == x) or not (x == y) or hash(x) != hash(y) or (x != y):
                            issue("eq-hash", f"value {v}: x==v {x == v}, x==y {x == y}, hash equal {hash(x) == hash(y)}", v)
                        nz = b if v != 0 else (1).to_bytes(size, bo, signed=signed)
                        unit = b""
                        if size == 1:
                            unit = bytes([v & 0xFF])
                        elif size == 2:
                            unit = (v & 0xFFFF).to_bytes(2, bo)
                        data = b + b + b + nz + bytes(size) + unit + b"\x7e"
                        s = cs.S(data)
                        if s.e.value != v or [z.value for z in s.arr] != [v, v] or [z.value for z in s.nt] != [int.from_bytes(nz, bo, signed=signed)] or s.t != 0x7E:
                            issue("struct:value", f"value {v}: struct S parsed as {impl.norm(s)} from {data.hex()}", v)
                            continue
                        if not all(type(z) is E for z in [s.e, *s.arr, *s.nt]):
                            issue("struct:type", f"value {v}: field types {[type(z).__name__ for z in [s.e, *s.arr, *s.nt]]}", v)
                        if s.e != x or hash(s.e) != hash(x):
                            issue("eq-hash", f"value {v}: struct field and scalar parse differ in ==/hash", v)
                        # every way of parsing the same underlying value gives equal objects with equal hashes (and the same member, if it names one)
                        ways = {"struct array element": s.arr[0], "terminated array element": s.nt[0] if v != 0 else None, "E[2]": E[2](b + b)[1], "E x[EOF] in a struct": cs.EofE(b + b).x[1],
                                "E[n] (dynamic count)": cs.DynE(bytes([1]) + b).d[0]}
                        for wname, z in ways.items():
                            if z is None:
                                continue
                            if not (z == x and x == z) or hash(z) != hash(x) or getattr(z, "name", None) != getattr(x, "name", None) or type(z) is not E:
                                issue("eq-hash", f"value {v}: {wname} {z!r} (name {getattr(z, 'name', None)!r}) vs scalar parse {x!r} (name {getattr(x, 'name', None)!r}): ==/hash/name differ", v, way=wname)
                                break
                        d = s.dumps()
                        if d != data:
                            issue("struct:dumps", f"value {v}: dumps {d.hex()} != input {data.hex()}", v)
                        lohi = None
                        if size == 1:
                            uv = v & 0xFF
                            lohi = (uv & 0xF, uv >> 4) if endian == "<" else (uv >> 4, uv & 0xF)
                        elif size == 2:
                            uv = v & 0xFFFF
                            lohi = (uv & 0xF, uv >> 4) if endian == "<" else (uv >> 12, uv & 0xFFF)
                        if lohi is not None:
                            if (s.lo.value, s.hi.value) != lohi:
                                issue("bitfield", f"unit {uv:#x}: lo/hi {(s.lo.value, s.hi.value)} expected {lohi}", v)
                            data2 = b"\x02xy" + (b"\x00" if size == 2 else b"") + unit + b"\x7e"
                            sd = cs.SD(data2 + bytes(8))
                            d2 = sd.dumps()
                            if (sd.lo.value, sd.hi.value, sd.t) != (*lohi, 0x7E) or type(sd.lo) is not E:
                                issue("bitfield", f"aligned struct behind a dynamic member, unit {uv:#x}: lo/hi/t {(sd.lo.value, sd.hi.value, sd.t)} expected {(*lohi, 0x7E)}", v)
                            elif not (len(d2) >= len(data2) and (data2 + bytes(8)).startswith(d2)):
                                issue("struct:dumps", f"aligned struct behind a dynamic member, unit {uv:#x}: dumps {d2.hex()} != input {data2.hex()} (+ zero padding)", v)
                    except Exception as e:  # noqa: BLE001
                        issue("raises", f"value {v}: {impl.exc_sig(e)} {e!r}", v, exc=type(e).__name__)
    # the byte order is the one in effect when the data is read, also for an enum member of a structure that was compiled before the switch
    if size > 1:
        for compiled in (False, True):
            csf = cstruct(endian="<")
            try:
                csf.load(text_of(kind, base, specs, "oneline") + "\nstruct SF { E e; E arr[2]; uint8 t; };", compiled=compiled)
                for now in (">", "<", "!"):
                    csf.endian = now
                    bo_ = "little" if now == "<" else "big"
                    for v in [x for x in vals if not (kind == "flag" and x < 0)][:6]:  # (negative flag values: known finding X, reported by the value sweep)
                        b = v.to_bytes(size, bo_, signed=signed)
                        sf = csf.SF(b + b + b + b"\x7e")
                        res.evaluations += 1
                        res.transitions += 2
                        if (sf.e.value, [z.value for z in sf.arr], int(sf.t)) != (v, [v, v], 0x7E) or csf.E(b).value != v or sf.dumps() != b + b + b + b"\x7e":
                            issue("value:not-preserved", f"loaded under '<', byte order now {now!r} (compiled={compiled}): {b.hex()} x3 parsed as {impl.norm(sf)}, scalar {csf.E(b).value}, dumps {sf.dumps().hex()}; expected {v}", v)
                            break
            except Exception as e:  # noqa: BLE001
                issue("raises", f"endianness switch history (compiled={compiled}): {impl.exc_sig(e)} {e!r}", exc=type(e).__name__)
    # legacy parser twin of the numbering (named declarations; values may refer to earlier members)
    if base is not None and all(sp in ("auto", "=0", "=1", "=2", "=5", "=0x10", "=3", "=1<<3", "=PREV+1", "=PREV<<1", "=DUP", "=FIRST|4") for sp in specs):
        cs = cstruct()
        try:
            cs.load(text_of(kind, base, specs, "multiline") + "\n", deftype=cstruct.DEF_LEGACY)
            got = [(k, v.value) for k, v in cs.E.__members__.items()]
            res.evaluations += 1
            res.states += 1
            if got != mem:
                issue("numbering:legacy-parser", f"legacy parser: members {got}, C rule gives {mem}")
            # ... and with a line comment (containing a comma) behind every member
            commented = "\n".join(ln + ("  // first, second: note" if ln.strip() and not ln.strip().startswith(("enum", "flag", "}")) else "") for ln in text_of(kind, base, specs, "multiline").splitlines())
            cs3 = cstruct()
            cs3.load(commented + "\n", deftype=cstruct.DEF_LEGACY)
            got3 = [(k, v.value) for k, v in cs3.E.__members__.items()]
            if got3 != mem:
                issue("numbering:legacy-parser", f"legacy parser, '//' comments behind the members: members {got3}, C rule gives {mem}")
            cs4 = cstruct()
            cs4.load(commented + "\n")
            got4 = [(k, v.value) for k, v in cs4.E.__members__.items()]
            if got4 != mem:
                issue("numbering", f"'//' comments behind the members: members {got4}, C rule gives {mem}")
        except Exception as e:  # noqa: BLE001
            issue("load:legacy-raises", f"{impl.exc_sig(e)} {e!r}")
    if len(res.samples) < 2:
        res.samples.append({"declaration": text_of(kind, base, specs, "oneline"), "members": mem, "values_checked": len(vals)})


def cross_enum(tier) -> JobResult:
    """Members compare equal to their integer value and to same-class members, never to members of another enum."""
    from dissect.cstruct import cstruct

    res = JobResult()
    text = "enum A : uint8 { X = 1, Y = 2 };\nenum B : uint8 { X = 1, Z = 2 };\nflag FA : uint8 { P = 1, Q = 2 };\nflag FB : uint16 { P = 1, Q = 2 };\nenum { ANON1 = 1, ANON2 = 2 };"
    cs1, cs2 = cstruct(), cstruct()
    cs1.load(text)
    cs2.load(text)
    pairs = [("A", "B"), ("FA", "FB"), ("A", "FA")]
    for v in range(0, 5):
        for n1, n2 in pairs:
            for ca, cb in ((cs1, cs1), (cs1, cs2)):
                a, b = getattr(ca, n1)(v), getattr(cb, n2)(v)
                res.evaluations += 1
                res.states += 1
                res.transitions += 2
                res.nontrivial += 1
                if a == b or not (a != b):
                    res.violations.append(Violation("cross-enum:equal", "cross-enum:equal", {"enums": [n1, n2], "value": v}, f"{n1}({v}) == {n2}({v}) although they belong to different enums"))
                if not (a == v and b == v):
                    res.violations.append(Violation("cross-enum:int", "cross-enum:int", {"enums": [n1, n2], "value": v}, f"{n1}({v}) / {n2}({v}) do not equal the integer {v}"))
        for n in ("A", "FA"):
            a, b = getattr(cs1, n)(v), getattr(cs2, n)(v)
            res.evaluations += 1
            if a == b:
                res.violations.append(Violation("cross-enum:same-name-other-cstruct", "cross-enum:same-name", {"enum": n, "value": v}, f"{n}({v}) of two cstruct objects compare equal"))
            a2 = getattr(cs1, n)(bytes([v]))
            if not (a == a2 and hash(a) == hash(a2)):
                res.violations.append(Violation("cross-enum:same-class", "cross-enum:same-class", {"enum": n, "value": v}, f"{n}({v}) and {n}(bytes) differ in ==/hash"))
    # declarations in ONE load whose members have the same names and the same value expressions, but other values: each is numbered on its own
    multi = ("enum M1 : uint8 { BASE = 1, NEXT = BASE + 1, LAST, MASK = (NEXT | 8) };\nenum M2 : uint16 { BASE = 16, NEXT = BASE + 1, LAST, MASK = (NEXT | 8) };\n"
             "flag M3 : uint8 { R = 1, W = 2, RW = R | W, NEXTF };\nflag M4 : uint16 { R = 4, W = 8, RW = R | W, NEXTF };\n#define K12 3\nenum M5 { A5 = K12 + 1, B5 };")
    want = {"M1": [("BASE", 1), ("NEXT", 2), ("LAST", 3), ("MASK", 10)], "M2": [("BASE", 16), ("NEXT", 17), ("LAST", 18), ("MASK", 25)],
            "M3": [("R", 1), ("W", 2), ("RW", 3), ("NEXTF", 4)], "M4": [("R", 4), ("W", 8), ("RW", 12), ("NEXTF", 16)], "M5": [("A5", 4), ("B5", 5)]}
    for order in (("M1", "M2", "M3", "M4", "M5"), ("M2", "M1", "M4", "M3", "M5")):
        parts = {ln.split()[1]: ln for ln in multi.split("\n") if ln.startswith(("enum", "flag"))}
        text2 = "#define K12 3\n" + "\n".join(parts[n] for n in order)
        for compiled in (False, True):
            csm = cstruct()
            res.evaluations += 1
            res.states += 1
            res.nontrivial += 1
            try:
                csm.load(text2, compiled=compiled)
                for n in order:
                    got = [(k, m.value) for k, m in getattr(csm, n).__members__.items()]
                    if got != want[n]:
                        res.violations.append(Violation("numbering:several-declarations", "numbering:several-declarations", {"enums": list(order), "value": 0}, f"{text2!r}: {n} has members {got}, C rule gives {want[n]}"))
            except Exception as e:  # noqa: BLE001
                res.violations.append(Violation("numbering:several-declarations-raises", "numbering:several-declarations", {"enums": list(order), "value": 0}, f"{text2!r}: {impl.exc_sig(e)} {e!r}"))
    # a name re-bound to another enum: arrays (and fields) of it are arrays of the NEW enum
    try:
        csr = cstruct()
        csr.load("enum RE : uint8 { OLD = 1 };")
        first = csr.RE[2](b"\x01\x02")
        csr.add_type("RE", csr._make_enum("RE", csr.uint16, {"NEW": 1}), replace=True)
        second = csr.RE[2](b"\x01\x00\x02\x00")
        third = csr.resolve("RE")[None](b"\x01\x00\x00\x00")
        res.evaluations += 1
        ok = [type(z) is csr.RE for z in second] == [True, True] and [z.value for z in second] == [1, 2] and second[0].name == "NEW" and [z.value for z in third] == [1] and first[0].name == "OLD"
        if not ok:
            res.violations.append(Violation("rebind:array-of-old-enum", "rebind:array", {"enums": ["RE"], "value": 1}, f"after re-binding RE (uint8 {{OLD}}) to a uint16 enum {{NEW}}: RE[2] parses {second!r}, RE[] parses {third!r}"))
    except Exception as e:  # noqa: BLE001
        res.violations.append(Violation("rebind:raises", "rebind:array", {"enums": ["RE"], "value": 1}, f"{impl.exc_sig(e)} {e!r}"))
    if cs1.ANON1 != 1 or cs1.ANON2.value != 2:
        res.violations.append(Violation("anonymous:values", "anonymous:values", {}, f"anonymous enum constants: {cs1.ANON1!r} {cs1.ANON2!r}"))
    res.samples.append({"cross": text})
    return res


def decls(tier):
    n = 3 if tier == "quick" else 4
    specs = SPECS if tier == "thorough" else SPECS
    for kind in ("enum", "flag"):
        for base in BASES:
            for L in range(1, n + 1):
                pool = specs if L < (3 if tier == "quick" else 4) else (["auto", "=0", "=1", "=2", "=5", "=-1", "=PREV+1", "=PREV<<1", "=DUP", "=3"] if L == 3 else specs[:8])
                for sp in itertools.product(pool, repeat=L):
                    yield (kind, base, sp)


def jobs(tier):
    out = [("cross", tier)]
    allj = list(decls(tier))
    k = 60
    for i in range(0, len(allj), k):
        out.append(("decl", tier, allj[i : i + k]))
    return out


def run(job) -> JobResult:
    if job[0] == "cross":
        return cross_enum(job[1])
    res = JobResult()
    _, tier, chunk = job
    for kind, base, specs in chunk:
        check_decl(kind, tuple(base), tuple(specs), res, tier)
    return res


def replay(case):
    if "enums" in case or "enum" in case or not case:
        return cross_enum("thorough").violations
    res = JobResult()
    base = [b for b in BASES if b[0] == case["base"]][0]
    check_decl(case["kind"], base, tuple(case["specs"]), res, "thorough")
    want = case.get("value")
    return [v for v in res.violations if want is None or v.case.get("value") == want]


def meta(tier):
    return {
        "rule": "every enum/flag declaration with 1-3 members (thorough 4) whose value specs range over {auto, =0, =1, =2, =3, =5, =0x10, =-1, =prev+1, "
        "=prev<<1, =1<<3, duplicate of previous, =first|4} x 8 underlying types (incl. default and uint24) x {one line, one member per line, line "
        "break inside a member}; numbering = C rule; then ALL 256 underlying values for 8-bit bases, boundary/member/combination values otherwise, "
        "as scalar (bytes and stream), [2], [], bit-fields (static, and behind a dynamic member of an aligned structure) and struct field, both endiannesses, both readers: value preserved, dumps writes it back, "
        "==/hash laws; legacy parser numbering; cross-enum inequality; non-trivial = declarations with at least one explicit value",
        "bounds": {"members": 3 if tier == "quick" else 4, "value_specs": SPECS, "bases": [b[0] for b in BASES]},
        "assumptions": ["flag declarations with negative member values are outside the domain"],
    }
