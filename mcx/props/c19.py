"""C19 - utilities: hexdump is lossless and colour is cosmetic, dumpstruct shows exactly the bytes and every field, pack/unpack/swap are inverses."""
from __future__ import annotations

import io
import itertools
import re

from .. import impl
from .. import structcase as sc
from ..gen import defs
from ..refmodel.types import Cfg, RefReject
from ..runner import JobResult, Violation

ID = "C19"
LEVEL = "model_checking"
TASKS_PER_CHILD = 8
ANSI = re.compile(r"\x1b\[[0-9;]*m")
PRINTABLE = set(range(0x20, 0x7F))
C1, C2 = "\x1b[1;41m\x1b[1;37m", "\x1b[1;32m"


def ref_plain(data: bytes, offset=0, prefix="") -> str:
    """Sixteen bytes per line, running offset, hex column, printable column - written from the statement, not from the code."""
    lines = []
    for i in range(0, len(data), 16):
        chunk = data[i : i + 16]
        hx = ""
        for j in range(16):
            hx += (f"{chunk[j]:02x}" if j < len(chunk) else "  ") + " "
            if j == 7:
                hx += " "
        asc = "".join(chr(c) if c in PRINTABLE else "." for c in chunk)
        lines.append(f"{prefix}{offset + i:08x}  {hx:48s}  {asc}")
    return "\n".join(lines)


def parse_back(text: str, total: int, prefix=""):
    """Every byte exactly once, in order, sixteen per line, with its offset and its printable column: recover (bytes, offsets, column ok)
    from a plain dump without depending on the exact spacing or letter case."""
    out = bytearray()
    offs = []
    col_ok = True
    lines = text.split("\n") if text else []
    for li, line in enumerate(lines):
        if not line.startswith(prefix):
            raise ValueError("prefix missing")
        n = min(16, total - 16 * li)
        toks = line[len(prefix) :].split()
        offs.append(int(toks[0], 16))
        chunk = bytes(int(t, 16) for t in toks[1 : 1 + n])
        if any(len(t) != 2 for t in toks[1 : 1 + n]) or len(chunk) != n:
            raise ValueError("hex column")
        out += chunk
        col = line[len(line) - n :] if n else ""
        exp = "".join(chr(c) if c in PRINTABLE else "." for c in chunk)
        if col != exp:
            col_ok = False
    return bytes(out), offs, col_ok


def hexdump_job(L, tier) -> JobResult:
    from dissect.cstruct import hexdump

    res = JobResult()
    contents = [bytes((i * 7 + 0x1D) % 256 for i in range(L)), bytes(0x41 + (i % 26) for i in range(L)), b"\xff" * L]
    for ci, data in enumerate(contents):
        for offset in (0, 1, 0x10, 0xFFFFFFF0):
            for prefix in ("", "> ", "{x} ", "{", "{0}}", "%s "):
                res.evaluations += 1
                res.states += 1
                res.transitions += 2
                plain = hexdump(data, offset=offset, prefix=prefix, output="string")
                case = {"hexdump": L, "content": ci, "offset": offset, "prefix": prefix}
                nlines = len(plain.split("\n")) if plain else 0
                try:
                    back, offs, col_ok = parse_back(plain, L, prefix)
                except Exception as e:  # noqa: BLE001
                    res.violations.append(Violation("hexdump:unparsable", "hexdump:unparsable", case, f"len {L} offset {offset:#x} prefix {prefix!r}: cannot recover the bytes from {plain!r}: {e!r}"))
                    continue
                if nlines != (L + 15) // 16 or back != data or offs != [offset + 16 * i for i in range((L + 15) // 16)] or not col_ok:
                    res.violations.append(Violation("hexdump:lossy", "hexdump:lossy", case, f"len {L} offset {offset:#x}: {nlines} lines, recovered bytes {back.hex()} (data {data.hex()}), offsets {offs}, printable column ok={col_ok}; dump {plain!r}"))
                    continue
                gen = list(hexdump(data, offset=offset, prefix=prefix, output="generator"))
                if gen != (plain.split("\n") if plain else []):
                    res.violations.append(Violation("hexdump:generator", "hexdump:generator", case, f"len {L}: generator output differs from string output"))
        if ci > 0 and tier == "quick":
            continue
        lens = sorted({0, 1, 7, 8, 15, 16, 17, L, L + 5})
        plain0 = hexdump(data, output="string")
        kmax = 3 if tier == "quick" else 4
        for k in range(1, kmax + 1):
            pool = lens if k < 4 else [0, 1, 16, L]
            for ls in itertools.product(pool, repeat=k):
                for cols in (itertools.product((C1, C2), repeat=k) if k <= 2 else [tuple((C1, C2)[i % 2] for i in range(k))]):
                    pal = list(zip(ls, cols))
                    res.evaluations += 1
                    res.states += 1
                    res.transitions += 1
                    res.nontrivial += 1
                    case = {"hexdump": L, "content": ci, "palette": [[a, b] for a, b in pal]}
                    try:
                        col = hexdump(data, list(pal), output="string")
                    except Exception as e:  # noqa: BLE001
                        res.violations.append(Violation("hexdump:palette-raises", "hexdump:palette-raises", case, f"len {L} palette {pal}: {impl.exc_sig(e)} {e!r}"))
                        continue
                    if ANSI.sub("", col) != plain0:
                        res.violations.append(Violation("hexdump:palette-changes-text", f"hexdump:palette|{0 in ls}", case,
                                                        f"len {L} palette lengths {ls}: stripped of colour codes {ANSI.sub('', col)!r} != plain dump {plain0!r}", {"zero_length_entry": 0 in ls}))
    res.samples.append({"hexdump_length": L, "palettes": "all of <=3 entries over lengths {0,1,7,8,15,16,17,len,len+5} x 2 colours"})
    return res


STRUCT_TEXTS = [
    "struct S { uint8 a; uint16 b; };",
    "struct S { uint8 a : 4; uint8 b : 4; uint16 c; };",
    "struct S { uint8 n; char s[n]; uint8 e[0]; uint16 t; };",
    "struct S { uint8 h; struct { uint8 p; uint16 q; }; union { uint16 w; uint8 b[2]; }; uint8 t; };",
    "struct S { uint8 h; struct { uint8 p; uint16 q; } named; union { uint16 w; uint8 b[2]; } un; uint8 t; };",
    "enum E : uint8 { A = 1 }; struct S { E e; E arr[2]; uint8 *p; wchar w[2]; float f; };",
    "struct I { uint8 x; }; struct S { I i; I arr[2]; uint8 m[2][2]; char c[3]; uint32 big; uint8 x1; uint8 x2; uint8 x3; uint8 x4; uint8 x5; uint8 x6; };",
    "struct S { uint16 a : 1; uint16 b : 15; uint8 c : 8; uint8 d; };",
    "struct S { uint8 _; uint16 _; uint8 a; uint8 _; };",
]


# (definition, data): the class+data form on inputs whose re-serialisation is not the input (non-minimal LEB128) or impossible (dynamic union):
# "a hex dump of exactly its bytes" are the bytes that were parsed
TYPE_DATA = [
    ("struct S { uint8 a; uleb128 v; uint8 t; };", bytes.fromhex("01800007")),
    ("struct S { ileb128 v; uint16 t; };", bytes.fromhex("ff7f3412")),
    ("struct S { uint8 a; uleb128 v[2]; };", bytes.fromhex("0181800002")),
    ("struct S { uint8 a; union { uint8 b; char s[]; } u; };", bytes.fromhex("05616200")),
    ("union S { uint8 n; char s[]; };", bytes.fromhex("41424300")),
]


def dumpstruct_type_data(res, dumpstruct):
    from dissect.cstruct import cstruct
    from dissect.cstruct import hexdump as _hd

    for text, data in TYPE_DATA:
        for compiled in (False, True):
            for color in (False, True):
                cs = cstruct()
                cs.load(text, compiled=compiled)
                res.evaluations += 1
                res.states += 1
                res.transitions += 1
                res.nontrivial += 1
                case = {"dumpstruct": text, "compiled": compiled, "color": color, "form": "type+data", "data": data.hex()}
                try:
                    out = dumpstruct(cs.S, data, color=color, output="string")
                except Exception as e:  # noqa: BLE001
                    res.violations.append(Violation("dumpstruct:raises", f"dumpstruct:raises|{color}|type+data", case, f"{text!r} data={data.hex()} color={color}: {impl.exc_sig(e)} {e!r}"))
                    continue
                parts = ANSI.sub("", out).split("\n\n")
                hexpart = parts[0].lstrip("\n")
                if hexpart != ANSI.sub("", _hd(data, output="string")):
                    res.violations.append(Violation("dumpstruct:hexdump", f"dumpstruct:hexdump|{color}", case, f"{text!r} data={data.hex()}: hex part {hexpart!r} is not the hexdump of the parsed bytes"))
                    continue
                listed = [ln[2:].split(":")[0] for ln in (parts[1] if len(parts) > 1 else "").split("\n") if ln.startswith("- ")]
                if listed != [f._name for f in cs.S.__fields__]:
                    res.violations.append(Violation("dumpstruct:fields", f"dumpstruct:fields|{color}", case, f"{text!r} data={data.hex()}: listed fields {listed}"))


def dumpstruct_histories(res, dumpstruct):
    """The listing follows the structure as it is NOW: dump, extend the type (add_field / start_update), parse and dump again."""
    from dissect.cstruct import cstruct

    data = bytes(range(1, 12))
    for compiled in (False, True):
        for form in ("instance", "type+data"):
            for batch in (False, True):
                cs = cstruct()
                cs.load("struct S { uint8 a; uint16 b; };", compiled=compiled)
                S = cs.S
                res.evaluations += 1
                res.states += 1
                res.transitions += 4
                res.nontrivial += 1
                case = {"dumpstruct": "history", "compiled": compiled, "form": form, "batch": batch}
                try:
                    first = ANSI.sub("", dumpstruct(S(data), output="string") if form == "instance" else dumpstruct(S, data[:3], output="string"))
                    if batch:
                        with S.start_update():
                            S.add_field("c", cs.uint8)
                            S.add_field("d", cs.uint32)
                    else:
                        S.add_field("c", cs.uint8)
                        S.add_field("d", cs.uint32)
                    out = ANSI.sub("", dumpstruct(S(data), output="string") if form == "instance" else dumpstruct(S, data[:8], output="string"))
                except Exception as e:  # noqa: BLE001
                    res.violations.append(Violation("dumpstruct:raises", "dumpstruct:history-raises", case, f"dump, add_field(c, d), dump again: {impl.exc_sig(e)} {e!r}"))
                    continue
                listed = [ln[2:].split(":")[0] for ln in out.split("\n") if ln.startswith("- ")]
                if listed != ["a", "b", "c", "d"] or "08" not in out.split("\n\n")[0]:
                    res.violations.append(Violation("dumpstruct:fields", "dumpstruct:history", case, f"after dumping S {{a, b}} and adding c, d the dump of the extended structure lists {listed}"))
                if [ln[2:].split(":")[0] for ln in first.split("\n") if ln.startswith("- ")] != ["a", "b"]:
                    res.violations.append(Violation("dumpstruct:fields", "dumpstruct:history", case, f"first dump lists {first!r}"))


def dumpstruct_text_job(tier) -> JobResult:
    from dissect.cstruct import cstruct, dumpstruct

    res = JobResult()
    dumpstruct_type_data(res, dumpstruct)
    dumpstruct_histories(res, dumpstruct)
    for text in STRUCT_TEXTS:
        for align in (False, True):
            for compiled in (False, True):
                cs = cstruct()
                cs.load(text, compiled=compiled, align=align)
                S = cs.S
                data = bytes([2]) + bytes((i * 11 + 0x21) % 200 + 1 for i in range(63))
                v = S(io.BytesIO(data))
                raw = v.dumps()
                _check_dumpstruct(res, text, S, v, raw, data[: len(raw)] if False else raw, align, compiled, dumpstruct)
    res.samples.append({"dumpstruct_texts": STRUCT_TEXTS})
    return res


def _check_dumpstruct(res, text, S, v, raw, payload, align, compiled, dumpstruct, names=None):
    single_char = len(S.__fields__) == 1 and issubclass(S.__fields__[0].type, bytes)
    for color in (True, False):
        for form in ("instance", "type+data"):
            if form == "type+data" and single_char:
                continue  # T(bytes) constructs (rather than parses) a structure whose only field is a char of that size
            res.evaluations += 1
            res.states += 1
            res.transitions += 1
            res.nontrivial += 1
            case = {"dumpstruct": text, "align": align, "compiled": compiled, "color": color, "form": form}
            feats = {"color": color, "form": form, "has_bits": ":" in text, "compiled": compiled}
            try:
                out = dumpstruct(v, color=color, output="string") if form == "instance" else dumpstruct(S, payload, color=color, output="string")
            except Exception as e:  # noqa: BLE001
                res.violations.append(Violation("dumpstruct:raises", f"dumpstruct:raises|{color}|{form}", case, f"{text!r} color={color} {form}: {impl.exc_sig(e)} {e!r}", feats))
                continue
            plain = ANSI.sub("", out)
            parts = plain.split("\n\n")
            hexpart = parts[0].lstrip("\n")
            listing = parts[1] if len(parts) > 1 else ""
            from dissect.cstruct import hexdump as _hd

            exp_hex = _hd(raw if form == "instance" else payload, output="string")
            if ANSI.sub("", hexpart) != ANSI.sub("", exp_hex):
                res.violations.append(Violation("dumpstruct:hexdump", f"dumpstruct:hexdump|{color}", case, f"{text!r} color={color} {form}: hex part {hexpart!r} != hexdump of the value's bytes {exp_hex!r}", feats))
                continue
            lines = listing.split("\n")
            fields = [f._name for f in S.__fields__]
            listed = [ln[2:].split(":")[0] for ln in lines if ln.startswith("- ")]
            if listed != fields:
                res.violations.append(Violation("dumpstruct:fields", f"dumpstruct:fields|{color}", case, f"{text!r} color={color} {form}: listed fields {listed}, structure has {fields}", feats))
                continue
            for f in S.__fields__:
                val = getattr(v, f._name)
                line = [ln for ln in lines if ln.startswith(f"- {f._name}:")][0]
                shown = line.split(":", 1)[1].strip()
                if isinstance(val, int) and not hasattr(val, "dereference") and not hasattr(val, "name"):
                    ok = shown.lower() in (hex(val), str(int(val))) or hex(val) in shown.lower()  # how a number is printed is cosmetic
                else:
                    ok = len(shown) > 0
                if not ok:
                    res.violations.append(Violation("dumpstruct:value", f"dumpstruct:value|{color}", case, f"{text!r}: field {f._name} shown as {shown!r}, value is {val!r}", feats))
                    break


def dumpstruct_defs_job(job) -> JobResult:
    from dissect.cstruct import dumpstruct

    res = JobResult()
    _, tier, chunk = job
    for names in chunk:
        for align in (False, True):
            endian = "<"
            st, text = sc.build(names)
            cfg = Cfg(endian=endian, align=align)
            try:
                ins = sc.inputs(st, cfg, dev=0, raw=True, limit=1)
            except RefReject:
                continue
            L = sc.Loaded(text, endian, align)
            for compiled, T in L.T.items():
                for inp in ins[:2]:
                    o = sc.parse(T, inp.data)
                    if not o.ok:
                        continue
                    try:
                        raw = o.obj.dumps()
                    except Exception:  # noqa: BLE001
                        continue
                    _check_dumpstruct(res, text, T, o.obj, raw, raw, align, compiled, dumpstruct)
    return res


def pack_job(tier) -> JobResult:
    from dissect.cstruct import p8, p16, p32, p64, pack, swap, swap16, swap32, swap64, u8, u16, u32, u64, unpack

    res = JobResult()
    import sys as _sys

    spell = {"little": "little", "big": "big", "<": "little", ">": "big", "!": "big", "network": "big", "@": _sys.byteorder, "=": _sys.byteorder}
    fixed = {8: (p8, u8), 16: (p16, u16), 32: (p32, u32), 64: (p64, u64)}
    swaps = {16: swap16, 32: swap32, 64: swap64}
    for size in (8, 16, 24, 32, 48, 64, 128):
        n = size
        vals = {0, 1, 2, (1 << n) - 1, (1 << n) - 2, 1 << (n - 1), (1 << (n - 1)) - 1, (1 << (n - 1)) + 1, int.from_bytes(bytes(range(1, n // 8 + 1)), "big"),
                -1, -2, -(1 << (n - 1)), -(1 << (n - 1)) + 1, -int.from_bytes(bytes(range(1, n // 8 + 1)), "big") // 2}
        for i in range(0, n, 3):
            vals.add(1 << i)
            vals.add(-(1 << i) if i < n - 1 else -1)
        if size <= 16:
            vals |= set(range(-(1 << (n - 1)), 1 << n))
        for v in sorted(vals):
            for e, border in spell.items():
                res.evaluations += 1
                res.states += 1
                res.transitions += 2
                case = {"pack": size, "value": str(v), "endian": e}
                try:
                    exp = v.to_bytes(size // 8, border, signed=v < 0)
                    got = pack(v, size, e)
                    if got != exp:
                        res.violations.append(Violation("pack:bytes", f"pack:bytes|{size}", case, f"pack({v}, {size}, {e!r}) = {got.hex()}, two's complement gives {exp.hex()}"))
                        continue
                    back = unpack(got, size, e, sign=v < 0)
                    if back != v:
                        res.violations.append(Violation("pack:inverse", f"pack:inverse|{size}", case, f"unpack(pack({v})) = {back}"))
                    if v >= 0 and unpack(exp, size, e) != int.from_bytes(exp, border):
                        res.violations.append(Violation("unpack:value", f"unpack:value|{size}", case, f"unpack({exp.hex()}, {size}, {e!r}) = {unpack(exp, size, e)}"))
                    if v >= 0 and unpack(exp, size, e, sign=True) != int.from_bytes(exp, border, signed=True):
                        res.violations.append(Violation("unpack:signed", f"unpack:signed|{size}", case, f"unpack({exp.hex()}, {size}, {e!r}, sign=True) = {unpack(exp, size, e, sign=True)}"))
                    if size in fixed:
                        pf, uf = fixed[size]
                        if pf(v, e) != exp or uf(exp, e, v < 0) != v:
                            res.violations.append(Violation("pack:fixed-width-helper", f"pack:helper|{size}", case, f"p{size}/u{size} disagree with two's complement for {v}"))
                    res.nontrivial += 1
                except Exception as ex:  # noqa: BLE001
                    res.violations.append(Violation("pack:raises", f"pack:raises|{size}", case, f"pack/unpack({v}, {size}, {e!r}): {impl.exc_sig(ex)} {ex!r}"))
            if v >= 0:
                try:
                    sw = swap(v, size)
                    exp_sw = int.from_bytes(v.to_bytes(size // 8, "big"), "little")
                    if sw != exp_sw or swap(sw, size) != v or (size in swaps and swaps[size](v) != exp_sw):
                        res.violations.append(Violation("swap", f"swap|{size}", {"swap": size, "value": str(v)}, f"swap({v:#x}, {size}) = {sw:#x}, expected {exp_sw:#x}; swap twice = {swap(sw, size):#x}"))
                except Exception as ex:  # noqa: BLE001
                    res.violations.append(Violation("swap:raises", f"swap|{size}", {"swap": size, "value": str(v)}, f"swap({v}, {size}): {impl.exc_sig(ex)} {ex!r}"))
    for v in [0, 1, 255, 256, 65535, 65536, (1 << 64) - 1, 1 << 64, (1 << 100) + 5]:
        for e, border in spell.items():
            res.evaluations += 1
            res.states += 1
            got = pack(v, None, e)
            exp = v.to_bytes((v.bit_length() + 7) // 8, border)
            if got != exp or unpack(got, None, e) != v:
                res.violations.append(Violation("pack:size-none", "pack:size-none", {"pack": None, "value": str(v), "endian": e}, f"pack({v}, None, {e!r}) = {got.hex()}, expected {exp.hex()}; unpack gives {unpack(got, None, e)}"))
    res.samples.append({"pack": "widths 8..128 x boundary ints (all of them for 8/16 bit) x 8 endian spellings vs int.to_bytes/from_bytes"})
    return res


def jobs(tier):
    out = [("pack", tier), ("dumpstruct-texts", tier)]
    for L in range(0, 67):
        out.append(("hexdump", L, tier))
    for c in defs.chunks(defs.space(tier, "medium"), 60):
        out.append(("dumpstruct-defs", tier, c))
    return out


def run(job) -> JobResult:
    if job[0] == "pack":
        return pack_job(job[1])
    if job[0] == "dumpstruct-texts":
        return dumpstruct_text_job(job[1])
    if job[0] == "hexdump":
        return hexdump_job(job[1], job[2])
    return dumpstruct_defs_job(job)


def replay(case):
    if "hexdump" in case:
        return [v for v in hexdump_job(case["hexdump"], "thorough").violations if v.case == case]
    if "pack" in case or "swap" in case:
        return [v for v in pack_job("thorough").violations if v.case == case]
    vs = dumpstruct_text_job("thorough").violations
    hit = [v for v in vs if v.case == case]
    if hit:
        return hit
    res = JobResult()
    return vs


def meta(tier):
    return {
        "rule": "hexdump: EVERY data length 0..66 x 3 contents x 4 offsets x 2 prefixes (string and generator) against an independent renderer and a parser that "
        "recovers the bytes from the dump; ALL palettes of <=3 entries (thorough 4) over lengths {0,1,7,8,15,16,17,len,len+5} x 2 colours: stripping "
        "the colour codes gives the plain dump; dumpstruct: 8 hand-written definitions (bit-fields, empty arrays, anonymous and named nested "
        "structs/unions, enums, pointers) and every definition of <=2 fields over the wide atom alphabet x packed/aligned x both readers x colour on/off x {instance, "
        "(type, data)}: the hex part is the dump of exactly the value's bytes and every field is listed once, in order, with its value; pack / unpack / "
        "pN / uN / swap: widths 8..128 x boundary integers (all for 8 and 16 bit) x 6 endianness spellings vs int.to_bytes / from_bytes",
        "bounds": {"hexdump_lengths": "0..66", "palette_entries": 3 if tier == "quick" else 4},
        "assumptions": ["placement of colour codes is cosmetic and not compared", "pack of a negative value requires a width"],
    }
