"""C13 - definition parsing ignores comments, spacing and the order of unrelated definitions; aliases resolve to the very same type."""
from __future__ import annotations

import itertools
import re

from .. import impl
from ..refmodel import text as rtext
from ..refmodel.types import SYNONYMS
from ..runner import JobResult, Violation

ID = "C13"
LEVEL = "model_checking"
TASKS_PER_CHILD = 10

INSERTIONS = [" ", "\t", "\n", "/**/", "/* c */", "/* a\n b */", "// c\n", " /* struct x { */ ", "// a /* b\n", "/* // */"]

# Each corpus entry: list of (definition text, defines, uses) - top-level definitions in dependency order.
CORPUS = [
    [("struct A { uint8 a; uint16 b; };", ["A"], [])],
    [("struct B { uint8 n; char s[n]; uint8 t; };", ["B"], [])],
    [("struct C { uint8 a : 4; uint8 b : 4; uint16 c; };", ["C"], [])],
    [("struct D { uint8 *p; uint16 *q[2]; char *s; };", ["D"], [])],
    [("struct E { uint8 x[2][3]; uint16 y[]; };", ["E"], [])],
    [("struct PP { uint8 **pp; uint16 *q; uint8 **arr[2]; char ***s; };", ["PP"], []), ("typedef uint32 **pp32;", ["pp32"], [])],
    [("struct F { unsigned long long a; signed char b; unsigned short c; long d; };", ["F"], [])],
    [("union G { uint32 a; uint8 b[4]; };", ["G"], [])],
    [("struct H { uint8 t; union { uint16 w; uint8 b[2]; } u; struct { uint8 p; uint8 q; }; uint8 z; };", ["H"], [])],
    [("struct I { struct inner { uint8 a; uint16 b; } m; uint8 t; };", ["I"], [])],
    [("enum J : uint8 { A = 1, B, C = 1 << 3, D = C | A };", ["J"], []), ("struct K { J j; J arr[2]; J f : 4; J g : 4; };", ["K"], ["J"])],
    [("flag L : uint16 { P, Q, R = 0x10, S };", ["L"], []), ("struct M { L l; uint8 t; };", ["M"], ["L"])],
    [("enum { ANON_A = 5, ANON_B };", ["ANON_A"], []), ("struct N { uint8 a[ANON_A]; };", ["N"], ["ANON_A"])],
    [("typedef uint32 myint;", ["myint"], []), ("typedef myint myint2;", ["myint2"], ["myint"]), ("struct O { myint a; myint2 b; };", ["O"], ["myint", "myint2"])],
    [("typedef struct { uint8 a; uint16 b; } P1, P2;", ["P1", "P2"], []), ("struct Q { P1 x; P2 y; };", ["Q"], ["P1", "P2"])],
    [("typedef struct tagR { uint8 a; } R, R2;", ["tagR", "R", "R2"], []), ("struct S { tagR x; R y; R2 z; };", ["S"], ["tagR", "R", "R2"])],
    [("typedef uint8 arr4[4];", ["arr4"], []), ("typedef uint16 *pw;", ["pw"], []), ("struct T { arr4 a; pw p; };", ["T"], ["arr4", "pw"])],
    [("#define K 3\n", ["K"], []), ("#define K2 K * 2 + 1\n", ["K2"], ["K"]), ("struct U { uint8 a[K]; uint16 b[K2]; uint8 c[sizeof(uint32)]; };", ["U"], ["K", "K2"])],
    [("#[nocompile]\nstruct V { uint8 a; uint32 b; };", ["V"], []), ("struct W { V v; uint8 t; };", ["W"], ["V"])],
    [("struct structure { uint8 a; };", ["structure"], []), ("struct X { structure s; uint8 enum_; uint8 flagged; uint8 typedefx; uint8 union_; };", ["X"], ["structure"])],
    [("struct Y { uint8 n; Y *next; Y *arr[2]; };", ["Y"], [])],
    [("struct Z { wchar w[2]; float f; double d; int24 i; uint48 j; uleb128 k; char e[EOF]; };", ["Z"], [])],
    [("struct AA { uint8 a; };", ["AA"], []), ("struct AB { uint16 b; };", ["AB"], []), ("struct AC { AA a; AB b; };", ["AC"], ["AA", "AB"]), ("enum AD { X1, X2 };", ["AD"], []),
     ("typedef AB ABalias;", ["ABalias"], ["AB"])],
    [("enum PE : uint8 { PA = (1 + 2), PB = ~0 & 3, PC = (PA | 4) * 2, PD = -(-5), PF, PG = ~(~7) };", ["PE"], []), ("flag PF_ : uint16 { QA = (1), QB = (QA << 1) | QA, QC = ~0xFFF0 };", ["PF_"], []),
     ("struct PS { PE e; PF_ f; uint8 a[(2 + 1) * 2]; uint8 b[~0 & 3]; };", ["PS"], ["PE", "PF_"])],
    [("enum EB : unsigned int { EA = 1, EBB };", ["EB"], []), ("flag FB : unsigned short { FA, FBB };", ["FB"], []), ("enum EC : signed char { ECA = -1 };", ["EC"], []),
     ("struct EBS { EB e; FB f; EC c; unsigned long long q; };", ["EBS"], ["EB", "FB", "EC"])],
    [("struct bf1 { uint8 flag : 1; uint8 rest : 7; };", ["bf1"], []), ("struct bf2 { uint8 a; };", ["bf2"], []), ("struct bf3 { uint16 enum : 4; uint16 other : 12; };", ["bf3"], []),
     ("union bf4 { uint8 b; uint16 w; };", ["bf4"], [])],
    # unrelated structures with the same member names and the same packed layout, differing only in a member's type
    [("enum Color : uint16 { RED = 0x4C27 };", ["Color"], []), ("struct pixel { Color kind; uint16 v; };", ["pixel"], ["Color"]), ("struct sample { uint16 kind; uint16 v; };", ["sample"], []),
     ("struct s24 { int24 d; uint8 t; };", ["s24"], []), ("struct u24 { uint24 d; uint8 t; };", ["u24"], []), ("flag Fl16 : uint16 { FA = 1 };", ["Fl16"], []), ("struct fsample { Fl16 kind; uint16 v; };", ["fsample"], ["Fl16"])],
    [("enum AE : int16 { M = -2, N, O = M + 10 };", ["AE"], []), ("flag AF { F1, F2, F3 };", ["AF"], []), ("#define SZ 2\n", ["SZ"], []), ("struct AG { AE e[SZ]; AF f; };", ["AG"], ["AE", "AF", "SZ"])],
    [("struct AH { uint8 _; uint16 _; uint8 a; };", ["AH"], [])],
    [("#define len 4\n", ["len"], []), ("struct HasConst { uint8 a[len]; uint8 t; };", ["HasConst"], ["len"]), ("struct HasField { uint8 len; uint8 data[len]; uint8 t; };", ["HasField"], ["len"]),
     ("struct HasConst2 { uint16 b[len]; };", ["HasConst2"], ["len"])],
    [("struct flags { uint8 a; };", ["flags"], []), ("struct enum_entry { flags f; uint32 flag_dirty : 1; uint32 enum_rest : 31; };", ["enum_entry"], ["flags"]),
     ("union flagword { uint16 w; uint8 b[2]; };", ["flagword"], []), ("struct after_them { flagword fw; enum_entry e; };", ["after_them"], ["flagword", "enum_entry"])],
    [("struct CM1 { uint8 a; /* one */ uint8 b; };", ["CM1"], []), ("/* between */ struct CM2 { uint16 c; }; /* after */", ["CM2"], []), ("struct CM3 { uint8 d; // tail\n };", ["CM3"], [])],
    [("typedef struct { uint8 v; } *PAI, AI;", ["AI"], [])] if False else [("typedef struct { uint8 v; } AI;", ["AI"], [])],
    [("struct AJ {\n    uint8 a;   // first\n    uint16 b;  /* second */\n    /* uint8 gone; */\n    uint8 c;\n};", ["AJ"], [])],
    [('#define STR "a // not a comment"\n', ["STR"], []), ("#define CH 'x'\n", ["CH"], []), ("struct AK { uint8 a; };", ["AK"], [])],
]

PROBE = bytes(((i * 37 + 11) % 255) + 1 for i in range(160))


def signature(cs, empty_typedefs, empty_consts):
    """Names, layout and parsing behaviour of everything a cstruct object defines (anonymous type numbering normalised)."""
    from dissect.cstruct import Structure
    from dissect.cstruct.types import BaseArray, Pointer

    def tname(t):
        return re.sub(r"__anonymous_\d+__", "__anon__", t.__name__)

    def desc(t, depth=0):
        if isinstance(t, str):
            return ("alias", t)
        d = [tname(t), t.size, t.alignment]
        if issubclass(t, Structure) and depth < 3:
            d.append(tuple((f._name if not f._name.startswith("__anonymous") else "__anon__", tname(f.type), f.bits, f.offset, desc(f.type, depth + 1) if issubclass(f.type, Structure) else None) for f in t.__fields__))
            d.append(bool(getattr(t, "__align__", False)))
        if hasattr(t, "__members__"):
            d.append(tuple((k, v.value) for k, v in t.__members__.items()))
            d.append(tname(t.type))
        if issubclass(t, (BaseArray, Pointer)):
            d.append(tname(t.type))
            if issubclass(t, BaseArray):
                d.append(repr(t.num_entries))
        return tuple(d)

    sig = {}
    for name, t in cs.typedefs.items():
        if name in empty_typedefs:
            continue
        try:
            rt = cs.resolve(name)
        except Exception as e:  # noqa: BLE001
            sig["T:" + name] = ("resolve-error", type(e).__name__)
            continue
        entry = [desc(rt)]
        if isinstance(rt, type) and issubclass(rt, Structure):
            try:
                v = rt(PROBE)
                entry.append(repr(impl.norm(v)))
                entry.append(tuple(re.sub(r"__anonymous_\d+__", "__anon__", type(getattr(v, f._name)).__name__) for f in rt.__fields__))  # the values' types (enum member vs plain integer)
            except Exception as e:  # noqa: BLE001
                entry.append("parse-exc:" + type(e).__name__)
            entry.append(bool(rt.__compiled__))
        sig["T:" + name] = tuple(entry)
    for name, v in cs.consts.items():
        if name in empty_consts:
            continue
        sig["C:" + name] = repr(v) if not hasattr(v, "value") else ("member", v.name, v.value)
    return sig


_EMPTY = None


def empty():
    global _EMPTY
    if _EMPTY is None:
        from dissect.cstruct import cstruct

        e = cstruct()
        _EMPTY = (set(e.typedefs), set(e.consts))
    return _EMPTY


def load_sig(text, **kw):
    from dissect.cstruct import cstruct

    cs = cstruct()
    cs.load(text, **kw)
    return signature(cs, *empty())


def join(defs_):
    return "\n".join(d[0].rstrip("\n") if not d[0].startswith("#define") else d[0].rstrip("\n") for d in defs_) + "\n"


def check_insertions(ci, tier, res: JobResult, pairs=False):
    entry = CORPUS[ci]
    text = join(entry)
    try:
        base = load_sig(text)
    except Exception as e:  # noqa: BLE001
        res.violations.append(Violation("corpus:does-not-load", f"corpus:{ci}", {"corpus": ci}, f"{text!r}: {impl.exc_sig(e)} {e!r}"))
        return
    res.transitions += 1
    bounds = rtext.boundaries(text)
    toks = rtext.tokens(text)

    def ctx_of(pos):
        before = [t for t in toks if t[2] <= pos]
        after = [t for t in toks if t[1] >= pos]
        b = text[before[-1][1] : before[-1][2]] if before else "^"
        a = text[after[0][1] : after[0][2]] if after else "$"
        return (b if len(b) < 12 else before[-1][0]), (a if len(a) < 12 else after[0][0])

    def try_variant(variant, what, where):
        res.evaluations += 1
        res.states += 1
        res.transitions += 1
        res.traces += 1
        res.nontrivial += 1
        try:
            got = load_sig(variant)
        except Exception as e:  # noqa: BLE001
            b, a = where
            res.violations.append(Violation("insertion:load-raises", f"insertion:load-raises|{_cls(b)}|{_cls(a)}|{what!r}", {"corpus": ci, "variant": variant},
                                            f"inserting {what!r} between {b!r} and {a!r}: {impl.exc_sig(e)} {e!r}; text {variant!r}", {"before": _cls(b), "after": _cls(a), "insertion": what}))
            return
        if got != base:
            keys = [k for k in sorted(set(got) | set(base)) if got.get(k) != base.get(k)]
            b, a = where
            res.violations.append(Violation("insertion:changes-result", f"insertion:changes-result|{_cls(b)}|{_cls(a)}|{what!r}", {"corpus": ci, "variant": variant},
                                            f"inserting {what!r} between {b!r} and {a!r} changes {keys[:4]}: {[(got.get(k), base.get(k)) for k in keys[:1]]}; text {variant!r}",
                                            {"before": _cls(b), "after": _cls(a), "insertion": what}))

    for pos in bounds:
        where = ctx_of(pos)
        for what in INSERTIONS:
            try_variant(rtext.insert(text, pos, what), what, where)
    if pairs:
        for (p1, p2) in itertools.combinations(bounds, 2):
            for w1, w2 in ((" ", "\n"), ("/* c */", "// c\n"), ("\n", "/* a\n b */")):
                v = rtext.insert(rtext.insert(text, p2, w2), p1, w1)
                try_variant(v, w1 + "+" + w2, ctx_of(p1))
    if len(res.samples) < 2:
        res.samples.append({"text": text, "boundaries": len(bounds), "insertions": INSERTIONS})


def _cls(tok):
    if re.fullmatch(r"[A-Za-z_][A-Za-z0-9_]*", tok):
        return "word" if tok not in ("struct", "union", "enum", "flag", "typedef") else tok
    if re.fullmatch(r"[0-9][0-9a-zA-Z]*", tok):
        return "number"
    return tok


def check_orders(ci, res: JobResult):
    entry = CORPUS[ci]
    if len(entry) < 2:
        return
    text = join(entry)
    base = load_sig(text)
    n = len(entry)
    for perm in itertools.permutations(range(n)):
        if list(perm) == list(range(n)):
            continue
        defined = set()
        ok = True
        for i in perm:
            if any(u not in defined for u in entry[i][2]):
                ok = False
                break
            defined |= set(entry[i][1])
        if not ok:
            continue
        variant = join([entry[i] for i in perm])
        res.evaluations += 1
        res.states += 1
        res.transitions += 1
        res.nontrivial += 1
        try:
            got = load_sig(variant)
        except Exception as e:  # noqa: BLE001
            res.violations.append(Violation("order:load-raises", f"order:load-raises|{ci}", {"corpus": ci, "order": list(perm)}, f"order {perm}: {impl.exc_sig(e)} {e!r}; text {variant!r}"))
            continue
        if got != base:
            keys = [k for k in sorted(set(got) | set(base)) if got.get(k) != base.get(k)]
            res.violations.append(Violation("order:changes-result", f"order:changes-result|{ci}", {"corpus": ci, "order": list(perm)}, f"order {perm} changes {keys[:4]}: {[(got.get(k), base.get(k)) for k in keys[:1]]}"))
    # loading the definitions one load() call at a time is the same as loading them together
    from dissect.cstruct import cstruct

    cs = cstruct()
    try:
        for d in entry:
            cs.load(d[0])
        if signature(cs, *empty()) != base:
            res.violations.append(Violation("order:separate-loads-differ", f"order:separate-loads|{ci}", {"corpus": ci}, f"loading {text!r} definition by definition differs from loading it at once"))
    except Exception as e:  # noqa: BLE001
        res.violations.append(Violation("order:separate-loads-raise", f"order:separate-loads|{ci}", {"corpus": ci}, f"{impl.exc_sig(e)} {e!r}"))


def aliases(tier) -> JobResult:
    """Every alias of a type resolves to the very same type object."""
    from dissect.cstruct import cstruct

    res = JobResult()
    cs = cstruct()
    groups = {}
    for syn, canon in SYNONYMS.items():
        groups.setdefault(canon, []).append(syn)
    for canon, syns in groups.items():
        for s in syns:
            res.evaluations += 1
            res.states += 1
            res.nontrivial += 1
            try:
                if cs.resolve(s) is not cs.resolve(canon):
                    res.violations.append(Violation("alias:builtin-synonym", f"alias:builtin|{s}", {"alias": s}, f"{s!r} resolves to {cs.resolve(s)!r}, not to {canon}"))
                # and through a definition
                c2 = cstruct()
                c2.load(f"struct S {{ {s} x; }};")
                if c2.S.fields["x"].type is not c2.resolve(canon):
                    res.violations.append(Violation("alias:builtin-synonym-field", f"alias:builtin-field|{s}", {"alias": s}, f"field of type {s!r} has type {c2.S.fields['x'].type!r}, not {canon}"))
            except Exception as e:  # noqa: BLE001
                res.violations.append(Violation("alias:builtin-raises", f"alias:builtin|{s}", {"alias": s}, f"{s!r}: {impl.exc_sig(e)} {e!r}"))
    text = ("typedef uint32 a1; typedef a1 a2; typedef a2 a3;\ntypedef struct { uint8 v; } s1, s2, s3;\ntypedef struct tagT { uint8 v; } t1, t2;\n"
            "typedef s1 s1b;\nenum enumx : uint8 { A };\ntypedef enumx ex1;\ntypedef enumx ex2;\n")
    cs = cstruct()
    cs.load(text)
    for grp in (["uint32", "a1", "a2", "a3"], ["s1", "s2", "s3", "s1b"], ["tagT", "t1", "t2"], ["enumx", "ex1", "ex2"]):
        for x, y in itertools.combinations(grp, 2):
            res.evaluations += 1
            res.states += 1
            res.nontrivial += 1
            if cs.resolve(x) is not cs.resolve(y) or getattr(cs, x) is not getattr(cs, y):
                res.violations.append(Violation("alias:typedef", f"alias:typedef|{x}|{y}", {"aliases": [x, y]}, f"{x} and {y} resolve to different types: {cs.resolve(x)!r} / {cs.resolve(y)!r}"))
    res.samples.append({"synonym_groups": len(groups), "typedef_text": text})
    return res


# ---------------------------------------------------------------------------------------------- load / add_type histories
HOPS = 10


class AliasModel:
    """dict model: name -> ('type', canonical name) | ('alias', other name)."""

    def __init__(self):
        self.m = {}

    def resolve(self, name):
        cur = name
        for _ in range(HOPS):
            if cur in ("uint32", "uint16", "uint8"):
                return ("ok", cur)
            if cur not in self.m:
                return ("ResolveError", None)
            kind, tgt = self.m[cur]
            if kind == "type":
                return ("ok", tgt)
            cur = tgt
        return ("ResolveError-or-ok", None)


def alias_ops():
    ops = []

    def typedef(name, target):
        def run(cs, m: AliasModel):
            r = m.resolve(target)
            exp = None
            if r[0] == "ResolveError":
                exp = "ResolveError"
            elif name in m.m and m.resolve(name)[0] == "ok" and r[0] == "ok" and m.resolve(name)[1] != r[1]:
                exp = "ValueError"
            elif r[0] == "ok":
                if name not in m.m or m.resolve(name)[0] != "ok":
                    pass
                m_new = ("type", r[1])
            try:
                cs.load(f"typedef {target} {name};")
                got = None
            except Exception as e:  # noqa: BLE001
                got = type(e).__name__
            if exp is None and got is None:
                m.m[name] = m_new
            return exp, got
        return (f"typedef {target} {name}", run)

    def add_alias(name, target):
        def run(cs, m: AliasModel):
            exp = None
            if name in m.m:
                r_old, r_new = m.resolve(name), m.resolve(target)
                if r_old[0] == "ok" and r_new[0] == "ok" and r_old[1] != r_new[1]:
                    exp = "ValueError"
                elif r_old[0] != "ok" or r_new[0] != "ok":
                    exp = "any"  # comparing unresolvable aliases: raising ResolveError or accepting are both defensible
            try:
                cs.add_type(name, target)
                got = None
            except Exception as e:  # noqa: BLE001
                got = type(e).__name__
            if got is None:
                m.m[name] = ("alias", target)
            return exp, got
        return (f"add_type({name!r},{target!r})", run)

    ops += [typedef("T1", "uint32"), typedef("T1", "uint16"), typedef("T2", "T1"), typedef("T3", "nope")]
    ops += [add_alias("S1", "uint32"), add_alias("S2", "S1"), add_alias("S1", "uint16"), add_alias("U1", "nope"), add_alias("C1", "C2"), add_alias("C2", "C1"), add_alias("T1", "uint32")]
    return ops


NAMES = ["T1", "T2", "T3", "S1", "S2", "U1", "C1", "C2", "nope"]


def alias_histories(tier) -> JobResult:
    from dissect.cstruct import cstruct
    from dissect.cstruct.exceptions import ResolveError

    res = JobResult()
    ops = alias_ops()
    depth = 3 if tier == "quick" else 4
    seen = set()
    for d in range(1, depth + 1):
        for seq in itertools.product(range(len(ops)), repeat=d):
            cs = cstruct()
            m = AliasModel()
            hist = []
            bad = None
            for oi in seq:
                name, run = ops[oi]
                hist.append(name)
                exp, got = run(cs, m)
                res.transitions += 1
                if exp == "any":
                    pass
                elif exp != got and not (exp is None and got is None):
                    bad = f"{name}: expected {exp or 'accepted'}, got {got or 'accepted'}"
                    break
            res.evaluations += 1
            res.traces += 1
            if bad is None:
                obs = []
                for nm in NAMES:
                    try:
                        t = cs.resolve(nm)
                        got = ("ok", t.__name__)
                    except ResolveError:
                        got = ("ResolveError", None)
                    except Exception as e:  # noqa: BLE001
                        got = ("other:" + type(e).__name__, None)
                    exp = m.resolve(nm)
                    obs.append(got)
                    if exp[0] == "ResolveError-or-ok":
                        if got[0] not in ("ok", "ResolveError"):
                            bad = f"resolve({nm!r}) -> {got}"
                    elif got != exp:
                        bad = f"resolve({nm!r}) -> {got}, model {exp}"
                    if bad:
                        break
                seen.add(tuple(obs))
                res.nontrivial += 1 if d > 1 else 0
            if bad:
                res.violations.append(Violation("alias-history", f"alias-history|{hist[-1]}", {"history": hist}, f"history {hist}: {bad}"))
    # a chain longer than the resolution bound never loops or binds to something else
    cs = cstruct()
    prev = "uint32"
    for i in range(14):
        cs.add_type(f"L{i}", prev)
        prev = f"L{i}"
    for i in range(14):
        try:
            t = cs.resolve(f"L{i}")
            if t is not cs.uint32:
                res.violations.append(Violation("alias-chain", "alias-chain", {"chain": i}, f"L{i} resolves to {t!r}"))
        except ResolveError:
            pass
        except Exception as e:  # noqa: BLE001
            res.violations.append(Violation("alias-chain", "alias-chain", {"chain": i}, f"L{i}: {impl.exc_sig(e)}"))
    res.states += len(seen)
    res.samples.append({"alias_ops": [o[0] for o in ops], "depth": depth})
    return res


def load_kwargs_histories(tier) -> JobResult:
    """Sequences of load() calls with different keyword arguments on ONE cstruct object: every definition gets the layout and reader
    it gets when loaded alone with the same keywords into a fresh object."""
    from dissect.cstruct import cstruct

    res = JobResult()
    defs_ = ["struct KA { uint8 a; uint64 b; uint16 c; };", "struct KB { uint16 x; uint32 y; uint8 z; };", "struct KC { uint8 p; uint8 q : 4; uint8 r : 4; uint32 s; };"]
    kws = [dict(align=a, compiled=c) for a in (False, True) for c in (False, True)]
    alone = {}
    for d in defs_:
        for kw in kws:
            alone[(d, kw["align"], kw["compiled"])] = load_sig(d, **kw)
    depth = 2 if tier == "quick" else 3
    for seq in itertools.product(range(len(kws)), repeat=depth):
        for order in itertools.permutations(range(len(defs_)), depth):
            cs = cstruct()
            res.evaluations += 1
            res.states += 1
            res.traces += 1
            res.nontrivial += 1
            hist = []
            try:
                for k, di in zip(seq, order):
                    cs.load(defs_[di], **kws[k])
                    hist.append((defs_[di].split()[1], kws[k]))
                    res.transitions += 1
                sig = signature(cs, *empty())
            except Exception as e:  # noqa: BLE001
                res.violations.append(Violation("load-kwargs:raises", "load-kwargs:raises", {"loads": hist}, f"loads {hist}: {impl.exc_sig(e)} {e!r}"))
                continue
            for k, di in zip(seq, order):
                name = "T:" + defs_[di].split()[1]
                exp = alone[(defs_[di], kws[k]["align"], kws[k]["compiled"])][name]
                if sig.get(name) != exp:
                    res.violations.append(Violation("load-kwargs:sticky", "load-kwargs:sticky", {"loads": hist}, f"loads {hist}: {name} is {sig.get(name)}, loaded alone with the same keywords it is {exp}"))
                    break
    res.samples.append({"load_kwargs": [str(k) for k in kws], "definitions": defs_})
    return res


REDECLARATIONS = [
    # (first, second, second must be rejected?)
    ("struct SN { uint8 a; };", "typedef struct SN { uint16 b; } SNalias;", True),
    ("typedef uint32 SN;", "typedef struct SN { uint16 b; } SNalias;", True),
    ("enum SN : uint8 { A };", "typedef struct SN { uint16 b; } SNalias;", True),
    ("typedef struct SN { uint16 b; } SNalias;", "struct SN { uint8 a; };", True),
    ("struct SN { uint8 a; };", "struct SN { uint8 a; uint8 b; };", True),
    ("struct SN { uint8 a; };", "enum SN : uint8 { A };", True),
    ("typedef uint32 SN;", "typedef uint32 SN;", False),
    ("typedef uint32 SN;", "typedef unsigned int SN;", False),
    ("typedef uint32 SN;", "typedef DWORD SN;", False),
    ("typedef uint32 SN;", "typedef uint16 SN;", True),
    ("struct SN { uint8 a; };", "typedef SN SN2;", False),
    # array and pointer aliases: another length, element type or target is another target
    ("typedef uint8 SN[2];", "typedef uint8 SN[3];", True),
    ("typedef uint8 SN[2];", "typedef uint16 SN[2];", True),
    ("typedef uint8 SN[2];", "typedef uint8 SN[2][2];", True),
    ("typedef uleb128 SN[2];", "typedef uleb128 SN[3];", True),
    ("struct dyn1 { uint8 n; char d[n]; };\ntypedef dyn1 SN[2];", "typedef dyn1 SN[3];", True),
    ("typedef uint8 SN[2];", "typedef uint8 SN[];", True),
    ("typedef uint8 *SN;", "typedef uint16 *SN;", True),
    ("typedef uint8 *SN;", "typedef uint8 **SN;", True),
    ("typedef uint8 *SN;", "typedef uint8 SN;", True),
    ("typedef char SN[4];", "typedef char SN[8];", True),
    ("typedef wchar SN[4];", "typedef char SN[4];", True),
]

UNKNOWN_REFS = [
    "struct S { struct ghost_t *b; };", "struct S { union ghost_t *b; };", "struct S { struct ghost_t **b; };", "typedef struct ghost_t *P;", "typedef union ghost_t *P;",
    "struct S { ghost_t *b; };", "struct S { ghost_t b[2]; };", "typedef ghost_t G2;", "struct S { struct ghost_t b; };", "struct S { uint8 a; ghost_t b; };",
    "typedef ghost_t *GP;", "typedef ghost_t GA[2];", "struct S { uint8 n; ghost_t d[n]; };", "union U { ghost_t g; uint8 b; };", "struct S { struct { ghost_t g; } in_; };",
]


def unknown_refs(tier) -> JobResult:
    """A reference to an unknown type - in any declarator form - is a resolve error; it does not bind the name to something else, and the proper
    definition can be loaded afterwards."""
    from dissect.cstruct import cstruct
    from dissect.cstruct.exceptions import ResolveError

    res = JobResult()
    for text in UNKNOWN_REFS:
        for prefix in ("", "struct known_t { uint8 k; };\n"):
            cs = cstruct()
            res.evaluations += 1
            res.states += 1
            res.nontrivial += 1
            res.transitions += 2
            case = {"unknown-ref": prefix + text}
            try:
                cs.load(prefix + text)
                res.violations.append(Violation("unknown-ref:accepted", "unknown-ref:accepted", case, f"{prefix + text!r} was accepted; ghost_t is {cs.typedefs.get('ghost_t')!r}"))
                continue
            except ResolveError:
                pass
            except Exception as e:  # noqa: BLE001
                res.violations.append(Violation("unknown-ref:wrong-error", "unknown-ref:wrong-error", case, f"{prefix + text!r}: {impl.exc_sig(e)} {e!r}, expected a resolve error"))
                continue
            if "ghost_t" in cs.typedefs:
                res.violations.append(Violation("unknown-ref:bound", "unknown-ref:bound", case, f"{prefix + text!r} was refused but ghost_t is now bound to {cs.typedefs['ghost_t']!r}"))
                continue
            try:
                cs.load("struct ghost_t { uint8 a; uint16 b; };")
                if len(cs.ghost_t) != 3:
                    raise ValueError(f"size {len(cs.ghost_t)}")
            except Exception as e:  # noqa: BLE001
                res.violations.append(Violation("unknown-ref:residue", "unknown-ref:residue", case, f"after the refused {prefix + text!r}, defining ghost_t properly fails: {impl.exc_sig(e)} {e!r}"))
    res.samples.append({"unknown_refs": UNKNOWN_REFS[:4]})
    return res



def redeclarations(tier) -> JobResult:
    """Re-declaring a name is accepted only for the same target - in one load() call or in two."""
    from dissect.cstruct import cstruct

    res = JobResult()
    for first, second, must_reject in REDECLARATIONS:
        for mode in ("one-load", "two-loads"):
            cs = cstruct()
            res.evaluations += 1
            res.states += 1
            res.nontrivial += 1
            res.transitions += 2
            try:
                if mode == "one-load":
                    before = None
                    cs.load(first + "\n" + second)
                else:
                    cs.load(first)
                    before = cs.resolve("SN")
                    cs.load(second)
                rejected = False
            except Exception as e:  # noqa: BLE001
                rejected = True
                err = e
            case = {"redeclare": [first, second], "mode": mode}
            if must_reject and not rejected:
                res.violations.append(Violation("redeclare:accepted", "redeclare:accepted", case, f"{first!r} then {second!r} ({mode}): the conflicting re-declaration was accepted; SN is now {cs.resolve('SN')!r}"))
            elif not must_reject and rejected:
                res.violations.append(Violation("redeclare:same-target-rejected", "redeclare:rejected", case, f"{first!r} then {second!r} ({mode}): {impl.exc_sig(err)} {err!r}"))
            elif must_reject and mode == "two-loads" and before is not None and cs.resolve("SN") is not before:
                res.violations.append(Violation("redeclare:rebound", "redeclare:rebound", case, f"{first!r} then {second!r}: rejected, but SN is now bound to {cs.resolve('SN')!r}"))
    res.samples.append({"redeclarations": [r[:2] for r in REDECLARATIONS]})
    return res


def jobs(tier):
    out = [("aliases", tier), ("alias-histories", tier), ("load-kwargs", tier), ("redeclare", tier), ("unknown-refs", tier)]
    for ci in range(len(CORPUS)):
        out.append(("insert", tier, ci))
        out.append(("orders", tier, ci))
    return out


def run(job) -> JobResult:
    if job[0] == "aliases":
        return aliases(job[1])
    if job[0] == "unknown-refs":
        return unknown_refs(job[1])
    if job[0] == "alias-histories":
        return alias_histories(job[1])
    if job[0] == "load-kwargs":
        return load_kwargs_histories(job[1])
    if job[0] == "redeclare":
        return redeclarations(job[1])
    res = JobResult()
    kind, tier, ci = job
    if kind == "insert":
        text = join(CORPUS[ci])
        check_insertions(ci, tier, res, pairs=(len(text) < (70 if tier == "quick" else 130)))
    else:
        check_orders(ci, res)
    return res


def replay(case):
    res = JobResult()
    if "variant" in case:
        ci = case["corpus"]
        base = load_sig(join(CORPUS[ci]))
        try:
            got = load_sig(case["variant"])
            if got != base:
                res.violations.append(Violation("insertion:changes-result", "", case, "differs"))
        except Exception as e:  # noqa: BLE001
            res.violations.append(Violation("insertion:load-raises", "", case, repr(e)))
        return res.violations
    if "order" in case or "corpus" in case:
        check_orders(case["corpus"], res)
        return res.violations
    if "history" in case:
        return [v for v in alias_histories("thorough").violations if v.case == case]
    if "loads" in case:
        return load_kwargs_histories("thorough").violations
    if "redeclare" in case:
        return [v for v in redeclarations("thorough").violations if v.case == case]
    if "unknown-ref" in case:
        return [v for v in unknown_refs("thorough").violations if v.case == case]
    return aliases("thorough").violations


def meta(tier):
    return {
        "rule": "for each of 31 corpus texts (struct, union, nested/anonymous members, bit-fields, pointers, multi-dimensional and dynamic arrays, enum/flag with base and "
        "expressions, anonymous enum, typedef chains and multi-name typedefs, #define chains, config flags, multi-word C types, identifiers starting with keywords, "
        "self reference, quoted strings with comment markers): EVERY token boundary found by an independent lexer (bracket interiors, #define lines and #[..] flags are "
        "single tokens) x 10 insertions (blank, tab, newline, comment forms incl. a comment containing definition syntax and comments containing the other comment marker); every dependency-respecting permutation of "
        "the top-level definitions and definition-by-definition loading; signature = names, layouts, members, constants and the parse of a fixed input; alias table "
        "(all built-in synonyms and typedef groups resolve to the same object); BFS over typedef/add_type histories (depth 3/4 over 11 operations) against a dict "
        "model (accept / ValueError / ResolveError, never loop or bind elsewhere); non-trivial = every inserted/permuted variant",
        "bounds": {"corpus": len(CORPUS), "insertions": len(INSERTIONS), "alias_history_depth": 3 if tier == "quick" else 4},
        "assumptions": ["insertions are made at token boundaries of texts whose tokens are already separated where C requires it"],
    }
