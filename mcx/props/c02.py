"""C02 - byte fidelity of parse-then-dump (data bits reproduced, padding and unassigned bit-field bits written as zero)."""
from __future__ import annotations

from . import _rt

ID = "C02"
LEVEL = "model_checking"
TASKS_PER_CHILD = 6


def jobs(tier):
    return _rt.jobs(tier)


def run(job):
    return _rt.run("C02", job)


def replay(case):
    return _rt.replay("C02", case)


def meta(tier):
    return {
        "rule": "case = (definition, endian, align, reader, input); inputs are model-encoded value assignments (<=1 deviating field, "
        "padding and unassigned bit-field bits filled with junk 0xA5, sentinel tail) plus 5 raw patterns; the parsed value must equal "
        "the model's decode, dumps must have the consumed length, equal the input at every masked (field) bit and be zero elsewhere; "
        "non-trivial = the layout has at least one padding or unassigned bit inside the consumed extent",
        "bounds": {"definitions": "D(wide,2)+D(core-4,3)+[EOF] tails+long-run" if tier == "quick" else "D(wide,3)+D(core,4)+[EOF] tails+long-run", "deviations": 1},
        "assumptions": ["non-minimal LEB128 and NaN floats are outside the byte-fidelity claim (counted as noncanonical_skipped)",
                        "reference model mcx/refmodel (layout validated against ctypes in selftest)"],
    }
