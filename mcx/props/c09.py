"""C09 - stream discipline: position independence, exact consumption, agreement of input kinds and call forms."""
from __future__ import annotations

import io

from .. import impl
from .. import structcase as sc
from ..explore.faults import MinStream
from ..gen import defs
from ..impl import same
from ..refmodel.types import Cfg, RefReject, layout
from ..runner import JobResult, Violation

ID = "C09"
LEVEL = "model_checking"
TASKS_PER_CHILD = 6
OFFSETS = (0, 1, 2, 3, 5, 8, 16, 17)
JUNK_A = bytes((i * 13 + 0x31) % 256 for i in range(32))
JUNK_B = bytes([0]) * 32
TAIL_A = b"\x5a\xa5\x00\xff\x11\x22\x33\x44"
TAIL_B = bytes(8)


def jobs(tier):
    return [("dynunions", tier), ("unionforms", tier), ("longstrings", tier), ("emptystructs", tier), ("scalarforms", tier)] + [(tier, c) for c in defs.chunks(defs.space(tier, "medium"), 16)]


def _streams(buf: bytes, p: int):
    """Positioned streams of different kinds over the same bytes."""
    s1 = io.BytesIO(buf)
    s1.seek(p)
    yield "BytesIO", s1
    yield "MinStream", MinStream(buf, p)
    s3 = io.BufferedReader(io.BytesIO(buf))
    s3.seek(p)
    yield "BufferedReader", s3


def deref_all(obj):
    """Dereference every pointer reachable in a parsed value: list of ('ok', plain value) | ('exc', exception class name)."""
    from dissect.cstruct import Pointer, Structure

    out = []

    def walk(v, depth=0):
        if isinstance(v, Pointer):
            try:
                t = v.dereference()
                out.append(("ok", repr(impl.norm(t)) if not isinstance(t, Pointer) else int(t)))
                if isinstance(t, Pointer) and depth < 2:
                    walk(t, depth + 1)
            except Exception:  # noqa: BLE001
                # which exception an unreachable address raises depends on the stream object (BytesIO cannot seek past 2**63): only
                # "raises" is compared
                out.append(("exc",))
        elif isinstance(v, Structure):
            for n in type(v).fields:
                walk(getattr(v, n), depth)
        elif isinstance(v, list):
            for x in v:
                walk(x, depth)

    walk(obj)
    return out


def _sizes_of(v, depth=0):
    """Recorded per-field sizes of a parsed structure (and of the structures nested in it), in a comparable form."""
    from dissect.cstruct import Structure

    out = []
    sz = getattr(v, "_sizes", None)
    if isinstance(sz, dict):
        out.append(tuple(sorted((str(k), int(x)) for k, x in sz.items() if x is not None)))
    if depth < 3 and isinstance(v, Structure):
        for f in type(v).__fields__:
            x = getattr(v, f._name, None)
            if type(x).__name__ == "UnionProxy":  # (no hasattr/getattr probing: a Pointer's __getattr__ dereferences)
                x = object.__getattribute__(x, "__target__")
            if isinstance(x, Structure):
                out.append((f._name, _sizes_of(x, depth + 1)))
            elif isinstance(x, list) and x and isinstance(x[0], Structure):
                out.append((f._name, tuple(_sizes_of(e, depth + 1) for e in x[:3])))
    return tuple(out)


DYN_UNIONS = [
    "union DU { uint8 n; struct { uint8 n2; char d[n2]; } v; };",
    "union DU { uint8 n; char s[]; };",
    "union DU { uint16 w; char s[]; uint8 b; };",
    "union DU { char s[]; uint32 q; };",
    "struct dyn_t { uint8 n; char d[n]; }; union DU { dyn_t d; uint16 w; };",
    "union DU { uint8 n; uleb128 v; };",
]


def dynamic_unions(tier) -> JobResult:
    """Unions with a dynamically sized member: no extent model is assumed - pure differential: parsing at stream position p equals
    parsing the bytes from p onward on their own (same value, consumed = p + that extent), stand-alone and as a later struct member."""
    from dissect.cstruct import cstruct

    res = JobResult()
    payloads = [b"\x03abc\x00\x07\x08\x09\x0a", b"\x00\x00\x00\x00\x01\x02", b"\x85\x01AB\x00CD\x00", b"\x02hi\x00there\x00\x00"]
    for text in DYN_UNIONS:
        full = text + "\nstruct W { uint8 h; uint16 g; DU u; uint8 t; };"
        for endian in "<>":
            for compiled in (False, True):
                cs = cstruct(endian=endian)
                try:
                    cs.load(full, compiled=compiled)
                except Exception as e:  # noqa: BLE001
                    res.violations.append(Violation("dynunion:load-raises", "dynunion:load-raises", {"dynunion": text}, f"{full!r}: {e!r}"))
                    continue
                res.transitions += 1
                for T in (cs.DU, cs.W):
                    for pl in payloads:
                        s0 = io.BytesIO(pl + TAIL_A)
                        try:
                            v0 = T(s0)
                            base = (repr(impl.norm(v0)), s0.tell(), _sizes_of(v0))
                        except Exception as e:  # noqa: BLE001
                            base = ("exc", type(e).__name__)
                        for p in (1, 2, 5, 16):
                            for kind, stream in _streams(JUNK_A[:p] + pl + TAIL_A, p):
                                res.evaluations += 1
                                res.states += 1
                                res.transitions += 1
                                res.nontrivial += 1
                                try:
                                    v = T(stream)
                                    got = (repr(impl.norm(v)), stream.tell() - p, _sizes_of(v))
                                except Exception as e:  # noqa: BLE001
                                    got = ("exc", type(e).__name__)
                                if got != base:
                                    res.violations.append(Violation("dynunion:position-dependent", f"dynunion:position-dependent|{T.__name__}",
                                        {"dynunion": text, "type": T.__name__, "endian": endian, "compiled": compiled, "offset": p, "payload": pl.hex()},
                                        f"{full!r} {T.__name__} {endian} compiled={compiled}: at offset {p} via {kind}: {got}; the same bytes on their own: {base}"))
                                    break
    res.samples.append({"dynamic_unions": DYN_UNIONS, "offsets": [1, 2, 5, 16]})
    return res


TOP_UNIONS = DYN_UNIONS + [
    "union DU { uint8 a; uint16 b; uint32 c; };",
    "struct pad_t { uint8 a; uint32 b; }; union DU { pad_t s; uint64 q; };",
    "struct pad_t { uint8 a; uint32 b; }; union DU { uint64 q; pad_t s; uint8 r[8]; };",
    "union DU { uint8 lo:4; uint8 hi:4; uint8 raw; };",
    "union DU { uint16 arr[2]; char c[4]; struct { uint8 x; uint16 y; } in; };".replace(" in;", " inn;"),
    "union DU { uint8 *p; uint32 v; };",
]


def union_forms(tier) -> JobResult:
    """Top-level unions (fixed, padded first member, dynamic): every input object kind and call form gives the result of parsing a stream."""
    from dissect.cstruct import cstruct

    res = JobResult()
    payloads = [b"\x03abc\x00\x07\x08\x09\x0a\x0b\x0c\x0d", b"\x00\x00\x00\x00\x01\x02\x03\x04\x05\x06\x07\x08", b"\x85\x81AB\x00CD\x00\xff\xfe\xfd\xfc", bytes(range(0xF0, 0xFC))]
    for text in TOP_UNIONS:
        for endian in "<>":
            for align in (False, True):
                for compiled in (False, True):
                    cs = cstruct(endian=endian)
                    try:
                        cs.load(text, compiled=compiled, align=align)
                    except Exception as e:  # noqa: BLE001
                        res.violations.append(Violation("unionform:load-raises", "unionform:load-raises", {"unionform": text}, f"{text!r}: {e!r}"))
                        continue
                    T = cs.DU
                    for pl in payloads:
                        buf = pl + TAIL_A
                        try:
                            s0 = io.BytesIO(buf)
                            v0 = T(s0)
                            base = (repr(impl.norm(v0)), v0.dumps().hex() if not T.dynamic else None)
                        except Exception as e:  # noqa: BLE001
                            base = ("exc", type(e).__name__)
                        forms = [
                            ("T(bytes)", lambda: T(buf)),
                            ("T(bytearray)", lambda: T(bytearray(buf))),
                            ("T(memoryview)", lambda: T(memoryview(buf))),
                            ("T(memoryview of bytearray)", lambda: T(memoryview(bytearray(buf)))),
                            ("T(minstream)", lambda: T(MinStream(buf))),
                            ("T.read(bytes)", lambda: T.read(buf)),
                            ("T.read(bytearray)", lambda: T.read(bytearray(buf))),
                            ("T.read(memoryview)", lambda: T.read(memoryview(buf))),
                            ("T.read(stream)", lambda: T.read(io.BytesIO(buf))),
                            ("T.reads(bytes)", lambda: T.reads(buf)),
                            ("T.reads(bytearray)", lambda: T.reads(bytearray(buf))),
                            ("cs.read(name,bytes)", lambda: cs.read("DU", buf)),
                            ("cs.read(name,bytearray)", lambda: cs.read("DU", bytearray(buf))),
                            ("cs.read(name,stream)", lambda: cs.read("DU", io.BytesIO(buf))),
                        ]
                        for fname, fn in forms:
                            res.evaluations += 1
                            res.states += 1
                            res.transitions += 1
                            res.nontrivial += 1
                            try:
                                v = fn()
                                got = (repr(impl.norm(v)), v.dumps().hex() if not T.dynamic else None)
                            except Exception as e:  # noqa: BLE001
                                got = ("exc", type(e).__name__)
                            if got != base:
                                res.violations.append(Violation("unionform:differs", f"unionform:differs|{fname}",
                                    {"unionform": text, "endian": endian, "align": align, "compiled": compiled, "form": fname, "payload": pl.hex()},
                                    f"{text!r} {endian} align={align} compiled={compiled}: {fname} on {buf.hex()}: {got}; parsing a stream over the same bytes: {base}"))
    res.samples.append({"unions": TOP_UNIONS, "forms": 14})
    return res


EMPTY_DEFS = [
    "struct e {}; struct X { uint8 a; e m; uint8 b; };",
    "struct e {}; struct X { uint8 n; char d[n]; e m; uint8 b; };",
    "struct e {}; struct X { uint8 a; e m[2]; uint16 b; };",
    "struct e {}; struct X { e m; uint32 b; };",
    "struct e {}; union X { e m; uint16 b; };",
]


def empty_structs(tier) -> JobResult:
    """A member of an empty structure type occupies no bytes and must not move the stream - wherever the enclosing structure starts."""
    from dissect.cstruct import cstruct

    res = JobResult()
    payload = bytes([2, 0x41, 0x42, 0x43, 0x44, 0x45, 0x46, 0x47])
    for text in EMPTY_DEFS:
        for endian in "<>":
            for align in (False, True):
                for compiled in (False, True):
                    cs = cstruct(endian=endian)
                    case = {"emptystruct": text, "endian": endian, "align": align, "compiled": compiled}
                    try:
                        cs.load(text, compiled=compiled, align=align)
                        s0 = io.BytesIO(payload + TAIL_A)
                        v0 = cs.X(s0)
                        base = (repr(impl.norm(v0)), s0.tell())
                    except Exception as e:  # noqa: BLE001
                        res.violations.append(Violation("emptystruct:raises", "emptystruct:raises", case, f"{text!r} {endian} align={align} compiled={compiled}: {impl.exc_sig(e)} {e!r}"))
                        continue
                    for p in (4, 8, 16):
                        for kind, stream in _streams(JUNK_A[:p] + payload + TAIL_A, p):
                            res.evaluations += 1
                            res.states += 1
                            res.transitions += 1
                            res.nontrivial += 1
                            try:
                                v = cs.X(stream)
                                got = (repr(impl.norm(v)), stream.tell() - p)
                            except Exception as e:  # noqa: BLE001
                                got = ("exc", type(e).__name__)
                            if got != base:
                                res.violations.append(Violation("emptystruct:position-dependent", "emptystruct:position-dependent", dict(case, offset=p),
                                    f"{text!r} {endian} align={align} compiled={compiled}: at offset {p} via {kind}: {got}; the same bytes on their own: {base}"))
                                break
    res.samples.append({"empty_structs": EMPTY_DEFS})
    return res


SCALAR_TEXT = ("enum Es8 : int8 { A = 1, B = -2 }; enum Es16 : int16 { C = 1 }; flag Fu8 : uint8 { P = 1, Q = 0x80 }; enum Eu24 : uint24 { D = 1 }; enum Es64 : int64 { E = 1 };"
               "typedef uint16 pair_t[2]; typedef Es8 epair_t[2];")
SCALARS_9 = {"Es8": [b"\xff", b"\x80", b"\x01"], "Es16": [b"\xff\xfe", b"\x00\x80"], "Fu8": [b"\x81", b"\xff"], "Eu24": [b"\xff\xfe\xfd"], "Es64": [bytes(range(0xF8, 0x100))],
             "int24": [b"\xff\xfe\xfd", b"\x01\x02\x83"], "int8": [b"\x80"], "uint16": [b"\xff\x01"], "int64": [bytes(range(0x80, 0x88))], "char": [b"\xe9"], "wchar": [b"\xac\x20"],
             "float": [b"\x00\x00\xc0\xbf"], "uleb128": [b"\x85\x01"], "ileb128": [b"\x7f"], "pair_t": [b"\xff\x01\x02\x80"], "epair_t": [b"\xff\x80"], "int128": [bytes(range(0xF0, 0x100))]}


def scalar_forms(tier) -> JobResult:
    """Scalar, enum and array types on their own: every input object kind and call form, on an input of exactly the type's size and on a longer
    one, gives what parsing a stream gives (and leaves a stream behind the value)."""
    from dissect.cstruct import cstruct

    res = JobResult()
    for endian in "<>":
        cs = cstruct(endian=endian)
        cs.load(SCALAR_TEXT)
        for tname, datas in SCALARS_9.items():
            T = cs.resolve(tname)
            for data in datas:
                for tail in (b"", b"\x5a\xa5\x00\xff"):
                    buf = data + tail
                    try:
                        s0 = io.BytesIO(buf)
                        base = (repr(impl.norm(T(s0))), s0.tell())
                    except Exception as e:  # noqa: BLE001
                        base = ("exc", type(e).__name__)
                    forms = [("T(bytes)", lambda: T(buf)), ("T(bytearray)", lambda: T(bytearray(buf))), ("T(memoryview)", lambda: T(memoryview(buf))), ("T(minstream)", lambda: T(MinStream(buf))),
                             ("T.read(bytes)", lambda: T.read(buf)), ("T.read(stream)", lambda: T.read(io.BytesIO(buf))), ("T.reads(bytes)", lambda: T.reads(buf)),
                             ("T.reads(bytearray)", lambda: T.reads(bytearray(buf))), ("cs.read(name,bytes)", lambda: cs.read(tname, buf)), ("cs.read(name,stream)", lambda: cs.read(tname, io.BytesIO(buf)))]
                    for fname, fn in forms:
                        if tname == "char" and fname == "T(bytes)" and not tail:
                            continue  # char(b"x") of exactly one byte is the documented constructor form
                        res.evaluations += 1
                        res.states += 1
                        res.transitions += 1
                        res.nontrivial += 1
                        try:
                            got = repr(impl.norm(fn()))
                        except Exception as e:  # noqa: BLE001
                            got = "exc:" + type(e).__name__
                        if got != base[0]:
                            res.violations.append(Violation("scalarform:differs", f"scalarform:differs|{tname}|{fname}", {"scalarform": tname, "endian": endian, "form": fname, "input": buf.hex()},
                                f"{tname} {endian}: {fname} on {buf.hex()} gives {got}; parsing a stream over the same bytes: {base[0]}"))
                            break
    res.samples.append({"scalar_forms": list(SCALARS_9)})
    return res


LONG_LENGTHS = sorted(set(range(0, 70)) | {126, 127, 128, 129, 254, 255, 256, 257, 258, 300, 511, 512, 513, 1023, 1024, 1025, 4095, 4096, 4097, 8191, 8192, 8193, 65535, 65536, 65537})


def long_strings(tier) -> JobResult:
    """Terminated arrays of every length in LONG_LENGTHS (buffer-size boundaries): value, and stream left exactly behind the terminator, at offsets 0 and 3,
    stand-alone and followed by a field."""
    from dissect.cstruct import cstruct

    res = JobResult()
    lengths = LONG_LENGTHS if tier == "thorough" else [n for n in LONG_LENGTHS if n <= 1025 or n in (4096, 4097, 65536, 65537)]
    for endian in "<>":
        for compiled in (False, True):
            cs = cstruct(endian=endian)
            cs.load("struct SC { uint8 h; char s[]; uint32 v; }; struct SW { uint8 h; wchar s[]; uint32 v; }; struct SB { uint8 h; uint8 s[]; uint32 v; }; struct SU { uint8 h; uint16 s[]; uint32 v; };", compiled=compiled)
            bo = "little" if endian == "<" else "big"
            for n in lengths:
                body = bytes((i % 251) + 1 for i in range(n))
                cases = {
                    "SC": (b"\x11" + body + b"\x00", body),
                    "SB": (b"\x11" + body + b"\x00", list(body)),
                    "SW": (b"\x11" + b"".join(((b % 90) + 33).to_bytes(2, bo) for b in body) + b"\x00\x00", "".join(chr((b % 90) + 33) for b in body)),
                    "SU": (b"\x11" + b"".join((b + 256).to_bytes(2, bo) for b in body) + b"\x00\x00", [b + 256 for b in body]),
                }
                for tn, (enc, val) in cases.items():
                    enc = enc + (0x12345678).to_bytes(4, bo)
                    for p in (0, 3):
                        for kind, stream in _streams(JUNK_A[:p] + enc + TAIL_A, p):
                            res.evaluations += 1
                            res.states += 1
                            res.transitions += 1
                            if n >= 64:
                                res.nontrivial += 1
                            case = {"longstring": tn, "length": n, "endian": endian, "compiled": compiled, "offset": p, "via": kind}
                            try:
                                v = getattr(cs, tn)(stream)
                                got = (int(v.h), impl.norm(v.s), int(v.v), stream.tell() - p)
                            except Exception as e:  # noqa: BLE001
                                res.violations.append(Violation("long:raises", f"long:raises|{tn}", case, f"{tn} with {n} elements at offset {p} via {kind}: {impl.exc_sig(e)} {e!r}"))
                                break
                            exp = (0x11, val, 0x12345678, len(enc))
                            if got != exp:
                                what = "value" if got[:3] != exp[:3] else "position"
                                res.violations.append(Violation(f"long:{what}", f"long:{what}|{tn}", case,
                                    f"{tn} {endian} compiled={compiled} with {n} elements at offset {p} via {kind}: v={got[2]:#x} consumed={got[3]}, expected v=0x12345678 consumed={len(enc)}; s ok: {got[1] == val}"))
                                break
    res.samples.append({"long_strings": "char/uint8/wchar/uint16 [] arrays", "lengths": lengths[-12:]})
    return res


def check_case(names, endian, align, res: JobResult, tier="quick", only_input=None):
    st, text = sc.build(names)
    cfg = Cfg(endian=endian, align=align)
    case = sc.case_json(names, endian, align)
    try:
        ins = sc.inputs(st, cfg, dev=1, raw=False, limit=3 if tier == "quick" else 10)
        _, _, al = layout(st, cfg)
    except RefReject:
        return
    L = sc.Loaded(text, endian, align)
    res.transitions += 2
    eof_tail = sc.has_eof_tail(st)
    offsets = [p for p in OFFSETS if not align or p % al == 0]
    has_ptr = any("*" in n for n in names)

    def viol(kind, detail, reader, inp, **kw):
        feats = sc.features(names, endian, align, reader)
        c = dict(case)
        c.update({"reader": reader, "input": inp.data.hex(), "label": inp.label})
        c.update(kw)
        res.violations.append(Violation(kind, f"{kind}|align={align}|{reader}|{sc.cluster_tail(names)}", c, f"{text!r} {endian} " + detail, feats))

    for compiled in (False, True):
        if compiled in L.err:
            continue
        reader = "compiled" if compiled else "interpreted"
        T = L.T[compiled]
        cs = L.cs[compiled]
        oks = [i for i in ins if i.status == "ok" and (only_input is None or i.data.hex() == only_input)]
        for inp in oks:
            # payload = exactly the encoded extent (model), without the sentinel
            n = min(inp.consumed, len(inp.data))
            payload = inp.data[:n]
            expect = inp.value
            sizes0 = None
            for p in offsets:
                results = []
                for junk, tail in ((JUNK_A, TAIL_A), (JUNK_B, TAIL_B)):
                    buf = junk[:p] + payload + (b"" if eof_tail else tail)
                    for kind, stream in _streams(buf, p):
                        res.evaluations += 1
                        res.states += 1
                        res.transitions += 1
                        if p:
                            res.nontrivial += 1
                        try:
                            v = T(stream)
                            got = (impl.norm(v), stream.tell())
                        except Exception as e:  # noqa: BLE001
                            viol("offset:raises", f"payload={payload.hex()} at offset {p} via {kind}: {impl.exc_sig(e)} {e!r}", reader, inp, offset=p, via=kind)
                            continue
                        results.append((kind, got))
                        sz = _sizes_of(v)
                        if sizes0 is None:
                            sizes0 = (p, kind, sz)
                        elif sz != sizes0[2]:
                            viol("offset:sizes", f"payload={payload.hex()} at offset {p} via {kind}: recorded sizes {sz}, at offset {sizes0[0]} via {sizes0[1]}: {sizes0[2]}", reader, inp, offset=p, via=kind)
                        if not same(got[0], expect):
                            viol("offset:value", f"payload={payload.hex()} at offset {p} via {kind}: {got[0]} != model {expect}", reader, inp, offset=p, via=kind)
                        elif got[1] != p + inp.consumed:
                            viol("offset:position", f"payload={payload.hex()} at offset {p} via {kind}: stream left at {got[1]}, expected {p + inp.consumed}", reader, inp, offset=p, via=kind)
                res.outcomes.add(len({repr(r[1]) for r in results}))
            if eof_tail:
                # shortened inputs (the last bytes - often tail padding of the last element - missing): whatever happens, it happens for every input kind
                for cutn in (1, 2, 3):
                    if cutn >= len(payload):
                        break
                    short = payload[:-cutn]
                    outs = []
                    kinds_ = [("bytes", lambda: T(short)), ("bytearray", lambda: T(bytearray(short))), ("BytesIO", lambda: T(io.BytesIO(short))), ("MinStream", lambda: T(MinStream(short))),
                              ("BufferedReader", lambda: T(io.BufferedReader(io.BytesIO(short))))]
                    for kname, fn in kinds_:
                        res.evaluations += 1
                        res.transitions += 1
                        try:
                            outs.append((kname, ("ok", repr(impl.norm(fn())))))
                        except Exception:  # noqa: BLE001
                            outs.append((kname, ("raises",)))
                    if len({o[1] for o in outs}) > 1:
                        viol("kind:differs-on-short-input", f"input {short.hex()} ({cutn} bytes short of {payload.hex()}): " + ", ".join(f"{k}: {o[0] if o[0] == 'raises' else o[1][:60]}" for k, o in outs), reader, inp, cut=cutn)
                        break
            # ---- input object kinds and call forms at offset 0
            buf = payload + (b"" if eof_tail else TAIL_A)
            forms = [
                ("T(bytes)", lambda: T(buf)),
                ("T(bytearray)", lambda: T(bytearray(buf))),
                ("T(memoryview)", lambda: T(memoryview(buf))),
                ("T.read(bytes)", lambda: T.read(buf)),
                ("T.read(memoryview)", lambda: T.read(memoryview(buf))),
                ("T.read(stream)", lambda: T.read(io.BytesIO(buf))),
                ("T.read(minstream)", lambda: T.read(MinStream(buf))),
                ("T.reads(bytes)", lambda: T.reads(buf)),
                ("T.reads(bytearray)", lambda: T.reads(bytearray(buf))),
                ("cs.read(name,bytes)", lambda: cs.read("S", buf)),
                ("cs.read(name,stream)", lambda: cs.read("S", io.BytesIO(buf))),
            ]
            first_deref = None
            for fname, fn in forms:
                res.evaluations += 1
                res.transitions += 1
                try:
                    obj = fn()
                    got = impl.norm(obj)
                except Exception as e:  # noqa: BLE001
                    viol("form:raises", f"{fname} on {buf.hex()}: {impl.exc_sig(e)} {e!r}", reader, inp, form=fname)
                    continue
                if not same(got, expect):
                    viol("form:value", f"{fname} on {buf.hex()}: {got} != model {expect}", reader, inp, form=fname)
                    continue
                if has_ptr:
                    # "all give the same result" includes what the pointers of the result dereference to
                    dr = deref_all(obj)
                    if first_deref is None:
                        first_deref = (fname, dr)
                    elif dr != first_deref[1]:
                        viol("form:dereference-differs", f"{fname} on {buf.hex()}: pointers dereference to {dr}, via {first_deref[0]} to {first_deref[1]}", reader, inp, form=fname)
            res.traces += 1
        # ---- histories: consecutive reads on one stream (state = stream position)
        if not eof_tail and len(oks) >= 2:
            seq = oks[:3]
            parts = [i.data[: min(i.consumed, len(i.data))] + bytes(max(0, i.consumed - len(i.data))) for i in seq]
            for order in ((0, 1, 2), (2, 1, 0), (1, 1, 0)):
                order = [o for o in order if o < len(seq)]
                buf = b"".join(parts[o] for o in order) + TAIL_A
                for kind, stream in _streams(buf, 0):
                    pos = 0
                    for step, o in enumerate(order):
                        res.evaluations += 1
                        res.transitions += 1
                        res.nontrivial += 1
                        try:
                            v = T(stream)
                        except Exception as e:  # noqa: BLE001
                            viol("history:raises", f"read #{step} of {buf.hex()} via {kind}: {impl.exc_sig(e)} {e!r}", reader, seq[o], order=list(order))
                            break
                        pos += seq[o].consumed
                        if not same(impl.norm(v), seq[o].value) or stream.tell() != pos:
                            viol("history:value-or-position", f"read #{step} of {buf.hex()} via {kind}: {impl.norm(v)}@{stream.tell()} != {seq[o].value}@{pos}", reader, seq[o], order=list(order))
                            break
    if len(res.samples) < 2 and ins:
        res.samples.append({"definition": text, "endian": endian, "align": align, "offsets": offsets, "payload": ins[0].data.hex()})


def run(job) -> JobResult:
    if job[0] == "dynunions":
        return dynamic_unions(job[1])
    if job[0] == "unionforms":
        return union_forms(job[1])
    if job[0] == "longstrings":
        return long_strings(job[1])
    if job[0] == "emptystructs":
        return empty_structs(job[1])
    if job[0] == "scalarforms":
        return scalar_forms(job[1])
    res = JobResult()
    tier, chunk = job
    for names in chunk:
        for endian in "<>":
            for align in (False, True):
                sc.guarded(res, ID, tuple(names), endian, align, lambda: check_case(tuple(names), endian, align, res, tier))
    return res


def replay(case):
    if "dynunion" in case:
        return [v for v in dynamic_unions("thorough").violations if v.case == case]
    if "unionform" in case:
        return [v for v in union_forms("thorough").violations if v.case == case]
    if "scalarform" in case:
        return [v for v in scalar_forms("thorough").violations if v.case == case]
    if "emptystruct" in case:
        return [v for v in empty_structs("thorough").violations if v.case == case]
    if "longstring" in case:
        return [v for v in long_strings("thorough").violations if v.case == case]
    res = JobResult()
    check_case(tuple(case["atoms"]), case["endian"], case["align"], res, "thorough", only_input=case.get("input"))
    return res.violations


def meta(tier):
    return {
        "rule": "case = (definition, endian, align, reader, input, start offset p, junk filling, stream kind | call form | read history); "
        "p in {0,1,2,3,5,8,16,17} (multiples of the structure's alignment in aligned mode), two junk fillings before p and after the encoded "
        "extent, streams {BytesIO, minimal read/seek/tell class, BufferedReader}, 11 call forms over bytes/bytearray/memoryview/streams, "
        "and up to 3 consecutive reads on one stream; top-level unions (dynamic, fixed, padded-struct first member) x 14 input kinds / call forms vs parsing a stream; "
        "terminated arrays of char/uint8/wchar/uint16 of every length 0..69 and around 128..65536 at offsets 0 and 3; oracle = model decode of the payload alone, tell()==p+size and recorded `_sizes` independent of p; non-trivial = p>0 or a "
        "read after an earlier read",
        "bounds": {"definitions": "D(wide,2)+[EOF]" if tier == "quick" else "D(wide,2)+D(core,3)+[EOF]+long-run", "inputs_per_definition": 3 if tier == "quick" else 10},
        "assumptions": ["aligned structures are started at multiples of their own alignment (the statement's 'aligned p')"],
    }
