"""C03 - compiled reader is observationally equivalent to the interpreted reader (pure differential)."""
from __future__ import annotations

from .. import structcase as sc
from ..gen import defs
from ..impl import same
from ..refmodel.types import Cfg, INTS, RefReject, layout
from ..runner import JobResult, Violation

ID = "C03"
LEVEL = "model_checking"
TASKS_PER_CHILD = 6
CHUNK = 40


def jobs(tier):
    return [("samename", tier)] + [(tier, c) for c in defs.chunks(defs.space(tier, "main"), CHUNK)]


SAMENAME_BODIES = ["uint8 a;", "uint16 a;", "uint8 a; uint32 b;", "uint32 a; uint8 b;", "uint8 n; char d[n];", "uint24 a;", "char a[3];", "uint16 a : 4; uint16 b : 12;"]


def samename(tier) -> JobResult:
    """Two structures of one cstruct object that nest *different* inline structs of the same name (identical generated source for the
    outer reader): each compiled reader must behave like its own interpreted reader."""
    import itertools

    from dissect.cstruct import cstruct

    res = JobResult()
    pats = list(sc.values.raw_patterns(48))
    for b1, b2 in itertools.permutations(SAMENAME_BODIES, 2):
        text = f"struct A {{ uint8 x; struct hdr {{ {b1} }} h; uint8 y; }};\nstruct B {{ uint8 x; struct hdr {{ {b2} }} h; uint8 y; }};"
        for endian in "<>":
            for align in (False, True):
                cs = {}
                try:
                    for compiled in (False, True):
                        cs[compiled] = cstruct(endian=endian)
                        cs[compiled].load(text, compiled=compiled, align=align)
                except Exception as e:  # noqa: BLE001
                    res.violations.append(Violation("samename:load-raises", "samename:load-raises", {"samename": [b1, b2], "endian": endian, "align": align}, f"{text!r}: {e!r}"))
                    continue
                res.transitions += 2
                for nm in "AB":
                    TI, TC = getattr(cs[False], nm), getattr(cs[True], nm)
                    case = {"samename": [b1, b2], "which": nm, "endian": endian, "align": align}
                    if sc.layout_sig(TI)[:3] != sc.layout_sig(TC)[:3]:
                        res.violations.append(Violation("samename:layout", "samename:layout", case, f"{text!r} struct {nm}: {sc.layout_sig(TI)} vs {sc.layout_sig(TC)}"))
                    for d in pats:
                        a, b = sc.parse(TI, d), sc.parse(TC, d)
                        res.evaluations += 1
                        res.states += 1
                        res.transitions += 2
                        res.traces += 1
                        if TC.__compiled__:
                            res.nontrivial += 1
                        if a.ok != b.ok or (a.ok and (not same(a.value, b.value) or a.tell != b.tell or a.sizes != b.sizes)):
                            res.violations.append(Violation("samename:readers-differ", "samename:readers-differ", case,
                                f"{text!r} struct {nm} {endian} align={align} in={d[:16].hex()}: interp={(a.value, a.tell, a.sizes) if a.ok else a.sig} compiled={(b.value, b.tell, b.sizes) if b.ok else b.sig}"))
                            break
    res.samples.append({"samename": "struct A { uint8 x; struct hdr {B1} h; uint8 y; }; struct B { uint8 x; struct hdr {B2} h; uint8 y; } for all ordered pairs of 8 bodies"})
    return res


def ptr_widths(names, tier):
    if any("*" in n for n in names):
        return [None, "uint32", "uint16", "uint8"] if tier == "thorough" or len(names) <= 2 else [None, "uint16"]
    return [None]


def check_case(names, endian, align, ptr, res: JobResult, tier="quick", cuts=True):
    st, text = sc.build(names)
    cfg = Cfg(endian=endian, align=align, ptr=INTS[ptr or "uint64"])
    case = sc.case_json(names, endian, align, ptr)

    def viol(kind, detail, reader=None, **kw):
        feats = sc.features(names, endian, align, reader, **kw)
        res.violations.append(
            Violation(kind, f"{kind}|align={align}|{sc.cluster_tail(names)}", {**case, **kw.get("case", {})}, detail, feats)
        )

    L = sc.Loaded(text, endian, align, ptr)
    res.transitions += 2
    if L.err:
        if False in L.err and True in L.err:
            res.extra["both_reject"] += 1
            return
        if True in L.err:
            viol("load:compiled-fails", f"{text!r}: {L.err[True]!r}", exc=type(L.err[True]).__name__)
        else:
            viol("load:only-interpreted-fails", f"{text!r}: {L.err[False]!r}")
        return
    TI, TC = L.T[False], L.T[True]
    res.extra["programs"] += 1
    compiled = bool(TC.__compiled__)
    res.extra["programs_compiled" if compiled else "programs_fallback"] += 1
    if sc.layout_sig(TI) != sc.layout_sig(TC):
        viol("layout:differs", f"{text!r}: {sc.layout_sig(TI)} vs {sc.layout_sig(TC)}")
    try:
        ins = sc.inputs(st, cfg, dev=1 if tier == "quick" else 1, limit=14 if tier == "quick" else 32)
    except RefReject:
        # the model says the definition should not exist; C06 reports that - differential still applies on raw inputs
        ins = [sc.Input(f"raw:{i}", d, "undef") for i, d in enumerate(sc.values.raw_patterns())]
    seen = set()
    for inp in ins:
        key = inp.data
        if key in seen:
            continue
        seen.add(key)
        res.evaluations += 1
        res.states += 1
        if compiled:
            res.nontrivial += 1
        a = sc.parse(TI, inp.data)
        b = sc.parse(TC, inp.data)
        res.transitions += 2
        res.traces += 1
        hexin = inp.data[:48].hex()
        if a.ok and b.ok:
            if not same(a.value, b.value):
                viol("parse:value-differs", f"{text!r} in={hexin}: interp={a.value} compiled={b.value}", case={"input": inp.data.hex()})
            elif a.tell != b.tell:
                viol("parse:consumed-differs", f"{text!r} in={hexin}: interp={a.tell} compiled={b.tell}", case={"input": inp.data.hex()})
            else:
                ks = set(a.sizes) | set(b.sizes)
                bad = [k for k in ks if a.sizes.get(k, 0) != b.sizes.get(k, 0)]
                if bad:
                    viol("parse:sizes-differ", f"{text!r} in={hexin}: {bad} interp={a.sizes} compiled={b.sizes}", case={"input": inp.data.hex()})
        elif a.ok != b.ok:
            full = (a.tell if a.ok else b.tell) + 32 <= len(inp.data) or inp.status == "ok"
            if full:
                who = "compiled" if a.ok else "interpreted"
                o = b if a.ok else a
                viol(
                    f"parse:only-{who}-raises",
                    f"{text!r} in={hexin}: {o.sig} {o.exc!r}; other={(a if a.ok else b).value}",
                    exc=o.sig, case={"input": inp.data.hex()},
                )
        res.outcomes.add((a.ok, b.ok))
        # the same input behind a prefix (stream not at 0): still a pure differential.  Only positions that are multiples of every alignment:
        # an aligned structure at an unaligned position is outside what the library defines (C09's "aligned p"; on the pinned tree the two
        # readers already disagree there because tail padding is computed from the absolute position)
        if inp.label in ("base", "raw:0") and a.ok and b.ok:
            for p in (16,):
                d = b"\x5a" * p + inp.data
                pa, pb = sc.parse(TI, d, p), sc.parse(TC, d, p)
                res.transitions += 2
                res.evaluations += 1
                if pa.ok != pb.ok or (pa.ok and (not same(pa.value, pb.value) or pa.tell != pb.tell or any(pa.sizes.get(k, 0) != pb.sizes.get(k, 0) for k in set(pa.sizes) | set(pb.sizes)))):
                    viol("offset:readers-differ", f"{text!r} in={hexin} at stream offset {p}: interp={(pa.value, pa.tell) if pa.ok else pa.sig} compiled={(pb.value, pb.tell) if pb.ok else pb.sig}",
                         case={"input": inp.data.hex(), "offset": p})
        # every cut point of model-encoded inputs
        if cuts and inp.vals is not None and inp.status == "ok" and (inp.label == "base" or tier == "thorough"):
            n = min(inp.consumed, 64)
            for k in range(n):
                d = inp.data[:k]
                ca = sc.parse(TI, d)
                cb = sc.parse(TC, d)
                res.transitions += 2
                res.evaluations += 1
                if ca.ok and cb.ok and (not same(ca.value, cb.value) or ca.tell != cb.tell):
                    viol(
                        "cut:contradiction",
                        f"{text!r} in={d.hex()} (cut {k}/{inp.consumed}): interp={ca.value}@{ca.tell} compiled={cb.value}@{cb.tell}",
                        case={"input": d.hex()},
                    )
    if len(res.samples) < 3 and ins:
        res.samples.append({"definition": text, "endian": endian, "align": align, "compiled": compiled, "input": ins[0].data[:32].hex(), "value": repr(sc.parse(TI, ins[0].data).value)[:200]})


def run(job) -> JobResult:
    if job[0] == "samename":
        return samename(job[1])
    res = JobResult()
    tier, chunk = job
    for names in chunk:
        for endian in "<>":
            for align in (False, True):
                for ptr in ptr_widths(names, tier):
                    sc.guarded(res, ID, tuple(names), endian, align, lambda: check_case(tuple(names), endian, align, ptr, res, tier))
    return res


def replay(case):
    if "samename" in case:
        return [v for v in samename("thorough").violations if v.case == case]
    res = JobResult()
    check_case(tuple(case["atoms"]), case["endian"], case["align"], case.get("ptr"), res, "thorough")
    return res.violations


def meta(tier):
    return {
        "rule": "case = (definition from the atom alphabets, endian, align, pointer width, input); inputs are model-encoded value "
        "assignments with <=1 deviating field plus 5 raw byte patterns, and every cut point of the baseline inputs; "
        "non-trivial = the generated reader was actually installed (__compiled__), so the differential compares two readers",
        "bounds": {"definitions": "D(wide,2) + D(core,3) + [EOF] tails + long-run family" if tier == "quick" else "D(wide,3) + D(core,4) + [EOF] tails + long-run family", "deviations": 1, "cuts": "all prefixes of baseline inputs"},
        "assumptions": ["CPython 3.12 of /venv", "atom alphabets are representative of the generator's behaviour classes (DESIGN 4)"],
    }
