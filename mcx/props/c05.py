"""C05 - scalar codecs implement the standard encodings under the *current* endianness (incl. switches after load)."""
from __future__ import annotations

import io
import itertools
import math
import struct as pystruct

from .. import impl
from ..impl import same
from ..refmodel import codec
from ..refmodel.codec import decode, leb_encode
from ..refmodel.types import CHAR, FLOATS, INTS, SCALARS, SYNONYMS, WCHAR, Cfg, TArr, TEnum, TField, TFloat, TInt, TLeb, TPtr, TStruct, render
from ..runner import JobResult, Violation

ID = "C05"
LEVEL = "model_checking"
TASKS_PER_CHILD = 4
import sys as _sys

ENDIANS = ("<", ">", "!", "@", "=")  # every spelling the library accepts; '@' and '=' are the machine's byte order


def canon_order(e):
    return "<" if e == "<" or (e in "@=" and _sys.byteorder == "little") else ">"


def bo(e):
    return "little" if canon_order(e) == "<" else "big"


def names_for(canon):
    return [canon] + [s for s, c in SYNONYMS.items() if c == canon]


def int_patterns(size):
    n = size * 8
    vals = {0, (1 << n) - 1, 1 << (n - 1), (1 << (n - 1)) - 1, int.from_bytes(bytes(range(1, size + 1)), "big"), int.from_bytes(bytes((0xF1 + i) % 256 for i in range(size)), "big")}
    for i in range(n):
        vals.add(1 << i)
        vals.add(((1 << n) - 1) ^ (1 << i))
    return sorted(vals)


def viol(res, kind, name, endian, detail, **case):
    res.violations.append(Violation(kind, f"{kind}|{name}", {"type": name, "endian": endian, **case}, f"{name} endian {endian!r}: {detail}", {"type": name, "endian": endian}))


def check_ints(res: JobResult, endian):
    from dissect.cstruct import cstruct

    cs = cstruct(endian=endian)
    cfg = Cfg(endian=canon_order(endian))
    for canon, t in INTS.items():
        for name in names_for(canon):
            try:
                T = cs.resolve(name)
            except Exception as e:  # noqa: BLE001
                viol(res, "resolve:raises", name, endian, repr(e))
                continue
            if T is not cs.resolve(canon):
                viol(res, "synonym:other-type", name, endian, f"resolves to {T!r}, expected the type {canon}")
                continue
            if T.size != t.size:
                viol(res, "size", name, endian, f"size {T.size} != {t.size}")
                continue
            if t.size <= 2:
                n = 256 ** t.size
                data = b"".join(i.to_bytes(t.size, "big") for i in range(n))
                exp = [int.from_bytes(data[i : i + t.size], bo(endian), signed=t.signed) for i in range(0, len(data), t.size)]
                res.evaluations += n
                res.states += n
                res.transitions += 2
                try:
                    got = [int(x) for x in T[n](data)]
                    if got != exp:
                        k = next(i for i in range(n) if got[i] != exp[i])
                        viol(res, "decode:bulk", name, endian, f"{data[k*t.size:(k+1)*t.size].hex()} decodes to {got[k]}, expected {exp[k]}", input=data[k * t.size : (k + 1) * t.size].hex())
                    back = T[n].dumps(exp)
                    if back != data:
                        k = next(i for i in range(0, len(data), t.size) if back[i : i + t.size] != data[i : i + t.size])
                        viol(res, "encode:bulk", name, endian, f"{exp[k // t.size]} encodes to {back[k:k+t.size].hex()}, expected {data[k:k+t.size].hex()}", value=exp[k // t.size])
                except Exception as e:  # noqa: BLE001
                    viol(res, "bulk:raises", name, endian, f"{impl.exc_sig(e)} {e!r}")
                pats = range(0, n, 1 if t.size == 1 else 251)
                pats = [p.to_bytes(t.size, "big") for p in pats]
            else:
                pats = [p.to_bytes(t.size, "big") for p in int_patterns(t.size)]
            for b in pats:
                exp = int.from_bytes(b, bo(endian), signed=t.signed)
                res.evaluations += 1
                res.states += 1
                res.transitions += 3
                res.nontrivial += 1
                try:
                    v1 = T(b)
                    s = io.BytesIO(b + b"\xee")
                    v2 = T(s)
                    if int(v1) != exp or int(v2) != exp or s.tell() != t.size:
                        viol(res, "decode", name, endian, f"{b.hex()} decodes to {int(v1)}/{int(v2)} (tell {s.tell()}), expected {exp}", input=b.hex())
                        continue
                    d = T.dumps(exp)
                    d2 = v1.dumps()
                    if d != b or d2 != b:
                        viol(res, "encode", name, endian, f"{exp} encodes to {d.hex()}/{d2.hex()}, expected {b.hex()}", value=exp)
                except Exception as e:  # noqa: BLE001
                    viol(res, "codec:raises", name, endian, f"{b.hex()}: {impl.exc_sig(e)} {e!r}", input=b.hex())
    res.samples.append({"ints": "all 256/65536 patterns for 1-/2-byte names, boundary+walking-bit patterns for wider ones", "endian": endian})


def check_floats(res: JobResult, endian):
    from dissect.cstruct import cstruct

    cs = cstruct(endian=endian)
    e = canon_order(endian)
    for name, t in FLOATS.items():
        T = cs.resolve(name)
        if t.size == 2:
            pats = [i.to_bytes(2, "big") for i in range(65536)]
        else:
            base = set()
            n = t.size * 8
            for i in range(n):
                base.add(1 << i)
                base.add(((1 << n) - 1) ^ (1 << i))
            for v in (0.0, -0.0, 1.0, -1.0, 1.5, 0.1, 1e10, -1e-10, 3.4028234663852886e38, 1.401298464324817e-45, 1.7976931348623157e308, 5e-324, float("inf"), float("-inf")):
                try:
                    base.add(int.from_bytes(pystruct.pack(">" + t.fmt, v), "big"))
                except OverflowError:
                    pass
            base |= {0x7FC00000 if t.size == 4 else 0x7FF8000000000000, int.from_bytes(bytes(range(1, t.size + 1)), "big")}
            pats = [p.to_bytes(t.size, "big") for p in sorted(base)]
        # bulk
        data = b"".join(pats)
        try:
            got = [float(x) for x in T[len(pats)](data)]
        except Exception as ex:  # noqa: BLE001
            viol(res, "bulk:raises", name, endian, f"{impl.exc_sig(ex)} {ex!r}")
            got = None
        for i, b in enumerate(pats):
            exp = pystruct.unpack(e + t.fmt, b)[0]
            res.evaluations += 1
            res.states += 1
            res.nontrivial += 1
            if got is not None and not (got[i] == exp or (math.isnan(got[i]) and math.isnan(exp))):
                viol(res, "decode:bulk", name, endian, f"{b.hex()} decodes to {got[i]!r}, IEEE-754 gives {exp!r}", input=b.hex())
                break
            if t.size == 2 and i % 97:
                continue
            try:
                v = T(b)
                res.transitions += 2
                if not (float(v) == exp or (math.isnan(float(v)) and math.isnan(exp))) or (exp == 0 and math.copysign(1, float(v)) != math.copysign(1, exp)):
                    viol(res, "decode", name, endian, f"{b.hex()} decodes to {float(v)!r}, IEEE-754 gives {exp!r}", input=b.hex())
                    break
                if not math.isnan(exp):
                    d = T.dumps(exp)
                    if d != b:
                        viol(res, "encode", name, endian, f"{exp!r} encodes to {d.hex()}, expected {b.hex()}", value=repr(exp))
                        break
            except Exception as ex:  # noqa: BLE001
                viol(res, "codec:raises", name, endian, f"{b.hex()}: {impl.exc_sig(ex)} {ex!r}", input=b.hex())
                break
    res.samples.append({"floats": "all 65536 float16 patterns; boundary and walking-bit patterns for float/double", "endian": endian})


def check_chars(res: JobResult, endian):
    from dissect.cstruct import cstruct

    cs = cstruct(endian=endian)
    enc = "utf-16-le" if canon_order(endian) == "<" else "utf-16-be"
    for name in names_for("char"):
        T = cs.resolve(name)
        for i in range(256):
            b = bytes([i])
            res.evaluations += 1
            res.states += 1
            res.transitions += 2
            if bytes(T(io.BytesIO(b))) != b or T.dumps(b) != b:
                viol(res, "char", name, endian, f"byte {b.hex()} decodes to {T(io.BytesIO(b))!r} / encodes to {T.dumps(b).hex()}")
                break
        allb = bytes(range(256))
        if bytes(T[256](allb)) != allb or T[256].dumps(allb) != allb:
            viol(res, "char:array", name, endian, "char[256] does not round-trip all byte values")
    for name in names_for("wchar"):
        T = cs.resolve(name)
        for cu in range(0x10000):
            b = cu.to_bytes(2, bo(endian))
            res.evaluations += 1
            res.states += 1
            surrogate = 0xD800 <= cu <= 0xDFFF
            if not surrogate and cu % 7 and cu > 0x300 and cu < 0xD000:
                continue  # individually: every 7th plain BMP unit above U+0300; all below, all around the surrogate range (bulk covers the rest)
            res.transitions += 1
            res.nontrivial += 1
            try:
                v = T(io.BytesIO(b))
                if surrogate:
                    viol(res, "wchar:lone-surrogate-decoded", name, endian, f"code unit {cu:#06x} decoded silently to {v!r}", input=b.hex())
                    break
                if str(v) != chr(cu):
                    viol(res, "wchar:decode", name, endian, f"code unit {cu:#06x} decodes to {v!r}", input=b.hex())
                    break
                if T.dumps(chr(cu)) != b:
                    viol(res, "wchar:encode", name, endian, f"{chr(cu)!r} encodes to {T.dumps(chr(cu)).hex()}, expected {b.hex()}")
                    break
            except UnicodeDecodeError:
                if not surrogate:
                    viol(res, "wchar:raises", name, endian, f"code unit {cu:#06x} raises UnicodeDecodeError", input=b.hex())
                    break
            except Exception as ex:  # noqa: BLE001
                if not surrogate:
                    viol(res, "wchar:raises", name, endian, f"code unit {cu:#06x}: {impl.exc_sig(ex)}", input=b.hex())
                    break
        # bulk: all non-surrogate units as one array; valid surrogate pairs as 2-element arrays
        units = [cu for cu in range(0x10000) if not 0xD800 <= cu <= 0xDFFF]
        data = b"".join(cu.to_bytes(2, bo(endian)) for cu in units)
        try:
            s = str(T[len(units)](data))
            if s != data.decode(enc):
                viol(res, "wchar:bulk", name, endian, "wchar[n] over all non-surrogate code units differs from the UTF-16 decoding")
            if T[len(units)].dumps(s) != data:
                viol(res, "wchar:bulk-encode", name, endian, "wchar[n] dump of all non-surrogate code units differs from the UTF-16 encoding")
        except Exception as ex:  # noqa: BLE001
            viol(res, "wchar:bulk-raises", name, endian, f"{impl.exc_sig(ex)} {ex!r}")
        for hi, lo in ((0xD800, 0xDC00), (0xD83D, 0xDE00), (0xDBFF, 0xDFFF)):
            b = hi.to_bytes(2, bo(endian)) + lo.to_bytes(2, bo(endian))
            res.evaluations += 1
            try:
                s = str(T[2](b))
                if s != b.decode(enc) or T[2].dumps(s) != b:
                    viol(res, "wchar:pair", name, endian, f"surrogate pair {b.hex()} decodes to {s!r}")
            except Exception as ex:  # noqa: BLE001
                viol(res, "wchar:pair-raises", name, endian, f"{b.hex()}: {impl.exc_sig(ex)}")
            for bad in (lo.to_bytes(2, bo(endian)) + hi.to_bytes(2, bo(endian)), hi.to_bytes(2, bo(endian)) + b"A\x00"[:: 1 if canon_order(endian) == "<" else -1]):
                try:
                    s = T[2](bad)
                    viol(res, "wchar:lone-surrogate-decoded", name, endian, f"invalid sequence {bad.hex()} decoded silently to {s!r}", input=bad.hex())
                except Exception:  # noqa: BLE001
                    pass
    res.samples.append({"char": "all 256 bytes", "wchar": "all 65536 code units (lone surrogates must raise), surrogate pairs", "endian": endian})


def leb_values():
    vals = set(range(-(1 << 14) - 2, (1 << 14) + 3))
    for j in range(1, 41):  # up to 2^280: the encoding has no widest value
        for d in (-1, 0, 1):
            vals.add((1 << (7 * j)) + d)
            vals.add(-(1 << (7 * j)) + d)
            vals.add((1 << (7 * j - 1)) + d)
            vals.add(-(1 << (7 * j - 1)) + d)
    for n in (63, 64, 65, 126, 127, 128, 129, 255, 256, 257):
        for d in (-1, 0, 1):
            vals.add((1 << n) + d)
            vals.add(-(1 << n) + d)
    return sorted(vals)


def check_leb(res: JobResult, endian):
    from dissect.cstruct import cstruct

    cs = cstruct(endian=endian)
    for name, signed in (("uleb128", False), ("ileb128", True)):
        T = cs.resolve(name)
        for v in leb_values():
            res.evaluations += 1
            res.states += 1
            if v < 0 and not signed:
                try:
                    out = T.dumps(v)
                    viol(res, "leb:negative-unsigned-accepted", name, endian, f"{v} encodes to {out.hex()} instead of being rejected", value=v)
                    break
                except Exception:  # noqa: BLE001
                    continue
            exp = leb_encode(v, signed)
            res.transitions += 2
            res.nontrivial += 1
            try:
                out = T.dumps(v)
                if out != exp:
                    viol(res, "leb:encode", name, endian, f"{v} encodes to {out.hex()}, canonical minimal encoding is {exp.hex()}", value=v)
                    break
                s = io.BytesIO(exp + b"\x80\x01")
                back = T(s)
                if int(back) != v or s.tell() != len(exp):
                    viol(res, "leb:decode", name, endian, f"{exp.hex()} decodes to {int(back)} (consumed {s.tell()}), expected {v}", input=exp.hex())
                    break
            except Exception as ex:  # noqa: BLE001
                viol(res, "leb:raises", name, endian, f"value {v}: {impl.exc_sig(ex)} {ex!r}", value=v)
                break
    res.samples.append({"leb128": "every integer in [-2^14-2, 2^14+2] and +-(2^(7j)+-1), +-(2^(7j-1)+-1) for j<=40", "endian": endian})


# ---------------------------------------------------------------------------------------------- endianness histories
E16 = TEnum("E16", INTS["uint16"], (("A", 1), ("B", 0x0102)))
HS_FIELDS = (TField("a", INTS["uint32"]), TField("b", INTS["uint24"]), TField("w", WCHAR), TField("f", FLOATS["float"]), TField("e", E16), TField("x", INTS["uint16"], 4),
             TField("y", INTS["uint16"], 12), TField("p", TPtr(INTS["uint8"])), TField("arr", TArr(INTS["int16"], 2)), TField("ws", TArr(WCHAR, 2)), TField("q", INTS["int64"]),
             TField("ea", TArr(E16, 2)), TField("i48", TArr(INTS["int48"], 2)))
HS = TStruct("HS", HS_FIELDS)
HI = TStruct("HI", HS_FIELDS)
HDATA = bytes(range(1, 60))
HDATA2 = bytes((i * 7 + 3) % 200 + 1 for i in range(60))  # no byte >= 0xD8: no UTF-16 surrogates under either byte order
SCALAR_FAMS = [("uint32", INTS["uint32"], bytes([1, 2, 3, 4])), ("int24", INTS["int24"], bytes([0x81, 2, 3])), ("uint16", INTS["uint16"], bytes([0xAB, 0xCD])),
               ("float", FLOATS["float"], bytes([0x3F, 0xC0, 0, 1])), ("wchar", WCHAR, bytes([0x20, 0xAC])), ("int128", INTS["int128"], bytes(range(0x80, 0x90))), ("E16", E16, bytes([1, 2]))]


def history_ops():
    ops = []
    for e in ENDIANS:
        ops.append((f"endian={e}", "set", e))
    for name, t, b in SCALAR_FAMS:
        ops.append((f"parse({name})", "parse", (name, t, b)))
        ops.append((f"dumps({name})", "dumps", (name, t, b)))
    for sname in ("HS", "HI"):
        ops.append((f"parse({sname})", "pstruct", (sname, HDATA)))
        ops.append((f"parse2({sname})", "pstruct", (sname, HDATA2)))
        ops.append((f"dumps({sname})", "dstruct", sname))
    return ops


def check_histories(res: JobResult, tier, first):
    from dissect.cstruct import cstruct

    ops = history_ops()
    text = render(HS)
    text_i = text.replace("struct HS", "struct HI")
    # depth 3 over the full alphabet; thorough adds depth 4 over a sub-alphabet (every byte-order switch, three scalar families, both structures)
    sub = [i for i, o in enumerate(ops) if o[1] == "set" or o[0] in ("parse(uint32)", "dumps(uint32)", "parse(wchar)", "dumps(int24)", "parse(HS)", "dumps(HS)", "parse(HI)")]
    plans = [(ops and range(len(ops)), 2)]
    if tier != "quick" and first in sub:
        plans.append((sub, 3))
    for start in ENDIANS:
        for rest in itertools.chain.from_iterable(itertools.product(pool, repeat=k) for pool, k in plans):
            seq = (first,) + rest
            if not any(ops[i][1] == "set" for i in seq):
                continue
            cs = cstruct(endian=start)
            cs.load(text, compiled=True)
            cs.load(text_i.split("\n")[-1], compiled=False)
            cur = start
            hist = [f"cstruct(endian={start!r})"]
            res.evaluations += 1
            res.traces += 1
            res.states += 1
            res.nontrivial += 1
            for i in seq:
                name, kind, arg = ops[i]
                hist.append(name)
                res.transitions += 1
                cfg = Cfg(endian=canon_order(cur))
                try:
                    if kind == "set":
                        cs.endian = arg
                        cur = arg
                        continue
                    if kind == "parse":
                        tn, t, b = arg
                        got = impl.norm(getattr(cs, tn)(b))
                        exp, _ = decode(t, b, 0, cfg)
                        ok = same(got, exp)
                        what = f"{b.hex()} -> {got!r}, expected {exp!r}"
                    elif kind == "dumps":
                        tn, t, b = arg
                        exp_v, _ = decode(t, b, 0, cfg)
                        T = getattr(cs, tn)
                        got = T.dumps(T(exp_v) if isinstance(t, TEnum) else exp_v)
                        ok = got == b
                        what = f"{exp_v!r} -> {got.hex()}, expected {b.hex()}"
                    elif kind == "pstruct":
                        sn, data = arg
                        st = HS if sn == "HS" else HI
                        got = impl.norm(getattr(cs, sn)(data))
                        exp, _ = decode(st, data, 0, cfg)
                        ok = same(got, exp)
                        what = f"parsed {got}, expected {exp}"
                    else:
                        st = HS if arg == "HS" else HI
                        exp_v, end = decode(st, HDATA, 0, cfg)
                        T = getattr(cs, arg)
                        obj = T(HDATA)  # parsed under the current endianness, dumped under it
                        got = obj.dumps()
                        ok = got == HDATA[:end]
                        what = f"dumps {got.hex()}, expected {HDATA[:end].hex()}"
                except Exception as e:  # noqa: BLE001
                    ok = False
                    what = f"{impl.exc_sig(e)} {e!r}"
                if not ok:
                    res.violations.append(Violation("history:stale-endianness", f"history|{name}|{cur}", {"history": hist}, f"history {hist} (endianness now {cur!r}): {name}: {what}", {"op": name, "endian": cur}))
                    break
    if first == 0:
        res.samples.append({"history": ["cstruct(endian='<')", "parse(HS)", "endian=>", "parse(HS)"], "ops": [o[0] for o in ops]})


def check_forms(res: JobResult, endian):
    """Every path that decodes/encodes the same scalar - T, T[n], T[] (terminated), a structure field, a field of each array form - applies
    the same encoding: element-wise equal to the scalar codec (the model), and dumping is the inverse."""
    from dissect.cstruct import cstruct

    cs = cstruct(endian=endian)
    e = canon_order(endian)
    cfg = Cfg(endian=e)
    byteorder = bo(endian)
    enc16 = "utf-16-le" if canon_order(endian) == "<" else "utf-16-be"
    fams = []
    for canon, t in INTS.items():
        n = t.size * 8
        vals = sorted({1, (1 << n) - 1, 1 << (n - 1), (1 << (n - 1)) - 1, int.from_bytes(bytes(range(0x81, 0x81 + t.size)), "big"), 0xFE << (n - 8), 0x80 | (1 << (n - 8)) if n > 8 else 0x80})
        fams.append((canon, t, [v.to_bytes(t.size, "big") for v in vals if v and v < (1 << n)]))
    for name, t in FLOATS.items():
        pk = {2: "e", 4: "f", 8: "d"}[t.size]
        fams.append((name, t, [pystruct.pack(">" + pk, x) for x in (1.0, -2.5, 0.1 if t.size > 2 else 0.5, 65504.0)]))
    fams.append(("char", CHAR, [b"A", b"\xff", b"\x80", b"\x01"]))
    text = "U\u20ac\u00e9\ud7ff\ue000\U0001F600\U00010000\U0010FFFF"
    for canon, t, elems in fams:
        T = cs.resolve(canon)
        sz = len(elems[0])
        for k in (1, 2, len(elems)):
            for rot in range(len(elems) if k < len(elems) else 1):
                chosen = [elems[(rot + i) % len(elems)] for i in range(k)]
                data = b"".join(chosen)
                if any(c == bytes(sz) for c in chosen):
                    continue
                exp = [decode(t, c, 0, cfg)[0] for c in chosen]
                res.evaluations += 1
                res.states += 1
                res.transitions += 6
                res.nontrivial += 1
                case = {"input": data.hex(), "count": k}
                try:
                    if k == 1:
                        # a scalar takes exactly its own bytes from a longer buffer, through every call form
                        longer = chosen[0] + b"\xa5\x5a\xff" + chosen[0]
                        forms_ = {"T(bytes)": lambda: T(longer), "T(bytearray)": lambda: T(bytearray(longer)), "T(memoryview)": lambda: T(memoryview(longer)), "T(stream)": lambda: T(io.BytesIO(longer)),
                                  "T.reads": lambda: T.reads(longer), "T.read(bytes)": lambda: T.read(longer), "T.read(stream)": lambda: T.read(io.BytesIO(longer)), "cs.read": lambda: cs.read(canon, longer)}
                        for fname_, fn_ in forms_.items():
                            got_ = impl.norm(fn_())
                            if not same(got_, exp[0]):
                                viol(res, "forms:surplus-bytes", canon, endian, f"{fname_} on {longer.hex()} gives {got_!r}, the first {sz} bytes decode to {exp[0]!r}", **case)
                                break
                    scal = [impl.norm(T(c)) for c in chosen]
                    fixed = impl.norm(T[k](io.BytesIO(data + b"\xee")))
                    st0 = io.BytesIO(data + bytes(sz) + b"\xee")
                    term = impl.norm(T[None](st0))
                    tell0 = st0.tell()
                    if isinstance(t, type(CHAR)):
                        exp_arr = b"".join(exp)
                    else:
                        exp_arr = exp
                    if not same(scal, exp):
                        viol(res, "forms:scalar", canon, endian, f"{data.hex()} element-wise decodes to {scal}, standard encoding gives {exp}", **case)
                        continue
                    if not same(fixed, exp_arr):
                        viol(res, "forms:array", canon, endian, f"{canon}[{k}] decodes {data.hex()} to {fixed}, the scalar codec gives {exp_arr}", **case)
                        continue
                    if not same(term, exp_arr) or tell0 != len(data) + sz:
                        viol(res, "forms:terminated-array", canon, endian, f"{canon}[] decodes {data.hex()}+terminator to {term} (consumed {tell0}), the scalar codec gives {exp_arr} ({len(data) + sz})", **case)
                        continue
                    # ... and as members of a structure: counted by a field, to the end of the stream, both readers
                    for compiled in (False, True):
                        csf = cstruct(endian=endian)
                        csf.load(f"struct DynF {{ uint8 n; {canon} x[n]; uint8 t; }};\nstruct EofF {{ uint8 h; {canon} x[EOF]; }};", compiled=compiled)
                        dv = csf.DynF(bytes([k]) + data + b"\x7e")
                        ev = csf.EofF(b"\x11" + data)
                        if not same(impl.norm(dv.x), exp_arr) or dv.t != 0x7E:
                            viol(res, "forms:counted-member", canon, endian, f"{canon} x[n] (n={k}, compiled={compiled}) decodes {data.hex()} to {impl.norm(dv.x)}, the scalar codec gives {exp_arr}", **case)
                            break
                        if not same(impl.norm(ev.x), exp_arr):
                            viol(res, "forms:eof-member", canon, endian, f"{canon} x[EOF] (compiled={compiled}) decodes {data.hex()} to {impl.norm(ev.x)}, the scalar codec gives {exp_arr}", **case)
                            break
                        if "nan" not in repr(exp) and (dv.dumps() != bytes([k]) + data + b"\x7e" or ev.dumps() != b"\x11" + data):
                            viol(res, "forms:member-encode", canon, endian, f"{canon} x[n] / x[EOF] (compiled={compiled}) holding {exp_arr} dump {dv.dumps().hex()} / {ev.dumps().hex()}", **case)
                            break
                    if "nan" in repr(exp):
                        continue
                    d1 = T[k].dumps(fixed if not isinstance(exp_arr, bytes) else exp_arr)
                    d2 = T[None].dumps(term if not isinstance(exp_arr, bytes) else exp_arr)
                    if d1 != data or d2 != data + bytes(sz):
                        viol(res, "forms:encode", canon, endian, f"{exp_arr} encodes to {d1.hex()} ([{k}]) / {d2.hex()} ([]), expected {data.hex()} (+ terminator)", **case)
                except Exception as ex:  # noqa: BLE001
                    viol(res, "forms:raises", canon, endian, f"{data.hex()}: {impl.exc_sig(ex)} {ex!r}", **case)
    # wchar: the three forms decode UTF-16 text of the current byte order, incl. characters outside the BMP (surrogate pairs)
    W = cs.resolve("wchar")
    # (U+FEFF / U+FFFE are ordinary characters of the text: the byte order is the cstruct object's, never taken from the data)
    subs = [text[lo:hi] for lo in range(len(text)) for hi in range(lo + 1, len(text) + 1)]
    bom = "\ufeffA\ufffeB\ufeff"
    subs += [bom[lo:hi] for lo in range(len(bom)) for hi in range(lo + 1, len(bom) + 1)]
    for sub in subs:
        if True:
            data = sub.encode(enc16)
            units = len(data) // 2
            res.evaluations += 1
            res.states += 1
            res.transitions += 4
            res.nontrivial += 1
            case = {"input": data.hex(), "count": units}
            try:
                fixed = str(W[units](io.BytesIO(data + b"\xee")))
                st0 = io.BytesIO(data + b"\x00\x00\xee")
                term = str(W[None](st0))
                if fixed != sub:
                    viol(res, "forms:wchar-array", "wchar", endian, f"wchar[{units}] decodes {data.hex()} to {fixed!r}, UTF-16 gives {sub!r}", **case)
                elif term != sub or st0.tell() != len(data) + 2:
                    viol(res, "forms:wchar-terminated", "wchar", endian, f"wchar[] decodes {data.hex()}+0000 to {term!r} (consumed {st0.tell()}), UTF-16 gives {sub!r}", **case)
                elif W[units].dumps(sub) != data or W[None].dumps(sub) != data + b"\x00\x00":
                    viol(res, "forms:wchar-encode", "wchar", endian, f"{sub!r} encodes to {W[units].dumps(sub).hex()} / {W[None].dumps(sub).hex()}, expected {data.hex()}", **case)
            except Exception as ex:  # noqa: BLE001
                viol(res, "forms:raises", "wchar", endian, f"{data.hex()} ({sub!r}): {impl.exc_sig(ex)} {ex!r}", **case)
    res.samples.append({"forms": "T, T[k], T[] for every int/float/char type and wchar text incl. surrogate pairs", "endian": endian})


def jobs(tier):
    out = []
    for e in ENDIANS:
        out.append(("forms", e))
        for grp in ("ints", "floats", "chars", "leb"):
            out.append((grp, e))
    for first in range(len(history_ops())):
        out.append(("histories", tier, first))
    return out


def run(job) -> JobResult:
    res = JobResult()
    if job[0] == "histories":
        check_histories(res, job[1], job[2])
    else:
        {"ints": check_ints, "floats": check_floats, "chars": check_chars, "leb": check_leb, "forms": check_forms}[job[0]](res, job[1])
    return res


def replay(case):
    res = JobResult()
    if "history" in case:
        for first in range(len(history_ops())):
            check_histories(res, "thorough", first)
            if res.violations:
                break
        return [v for v in res.violations if v.case == case] or res.violations[:1]
    for fn in (check_ints, check_floats, check_chars, check_leb):
        fn(res, case["endian"])
    return [v for v in res.violations if v.case.get("type") == case.get("type")]


def meta(tier):
    return {
        "rule": "every built-in scalar name and every synonym (checked to denote the very type of its group) x endianness {<,>,!}: ALL 256 / 65536 byte patterns of 1- and "
        "2-byte integers (bulk through T[n] and individually on a sub-lattice), boundary + walking-one + walking-zero patterns of wider integers, all 65536 "
        "float16 patterns and boundary/walking-bit patterns of float/double against struct, all 256 chars, all 65536 wchar code units (lone surrogates must "
        "raise) and surrogate pairs, LEB128 for every integer in [-2^14-2, 2^14+2] and around +-2^(7j), +-2^(7j-1) (j<=10) against the textbook minimal "
        "encoding; plus ALL histories of depth 3 (thorough 4) over 23 operations {set endianness, parse/dump of 7 scalar families, parse/dump of a "
        "compiled and an interpreted structure} from each initial endianness: every result follows the endianness current at the time of the call",
        "bounds": {"history_depth": 3 if tier == "quick" else "3 over all operations + 4 over 12", "history_ops": len(history_ops())},
        "assumptions": ["native byte-order codes '@' and '=' are outside the claimed domain", "'unsigned char' may denote char or uint8"],
    }
