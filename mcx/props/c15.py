"""C15 - concurrent parsing with shared types is equivalent to sequential parsing (all schedules with bounded preemptions)."""
from __future__ import annotations

import io

from .. import impl
from ..explore import sched
from ..runner import JobResult, Violation

ID = "C15"
LEVEL = "model_checking"
TASKS_PER_CHILD = 2

HARNESS = {
    "expr": ("struct S { uint8 n; uint8 m; char a[n * 2 + m]; uint8 b[-n + 4]; uint8 t; };",
             [bytes([1, 1]) + b"abc" + bytes([9, 8, 7]) + b"\x07", bytes([2, 0]) + b"wxyz" + bytes([5, 6]) + b"\x09", bytes([0, 3]) + b"qrs" + bytes([1, 2, 3, 4]) + b"\x0b"]),
    "bits": ("struct S { uint16 a : 4; uint16 b : 12; uint8 c : 3; uint8 d : 5; uint32 t; };",
             [bytes.fromhex("34127a0403020100"), bytes.fromhex("cdabe5a1b2c3d4ff"), bytes.fromhex("ffff00deadbeef01")]),
    "union": ("struct I { uint8 x; uint16 y; }; union U { I i; uint32 w; }; struct S { uint8 h; U u; uint8 t; };",
              [bytes.fromhex("01aabbccdd02"), bytes.fromhex("0311223344ee"), bytes.fromhex("05deadbeef06")]),
    "enum": ("enum E : uint8 { A = 1, B = 2 }; flag F : uint8 { P = 1, Q = 2, R = 4 }; struct S { E e; F f; E arr[2]; F g[]; };",
             [bytes.fromhex("0103010203050600"), bytes.fromhex("09ff020103ff00"), bytes.fromhex("0207630405010200")]),
    "ptr": ("struct T { uint8 v; uint16 w; }; struct S { uint8 *p; char *s; T *t; };",
            [(8).to_bytes(8, "little") + (27).to_bytes(8, "little") + (24).to_bytes(8, "little") + bytes([0x11, 0x22, 0x33]) + b"one\x00",
             (25).to_bytes(8, "little") + (28).to_bytes(8, "little") + (24).to_bytes(8, "little") + bytes([0x44, 0x55, 0x66]) + b"\x77two\x00",
             (26).to_bytes(8, "little") + (24).to_bytes(8, "little") + (25).to_bytes(8, "little") + b"ab\x00\x99\x98\x97"]),
    "dyn": ("struct D { uint8 n; wchar w[n]; }; struct S { D d1; D d2; uint8 t; };",
            [bytes([1]) + "a".encode("utf-16-le") + bytes([2]) + "bc".encode("utf-16-le") + b"\x05", bytes([2]) + "xy".encode("utf-16-le") + bytes([0]) + b"\x06",
             bytes([0]) + bytes([3]) + "pqr".encode("utf-16-le") + b"\x07"]),
}
HARNESS["sizeof"] = ("typedef uint16 word_t; struct W { word_t w; uint8 z; }; struct S { uint8 n; uint8 a[n * sizeof(uint32)]; uint8 b[n * sizeof(word_t) + sizeof(W)]; uint8 t; };",
                     [bytes([1]) + bytes(range(0x10, 0x14)) + bytes(range(0x20, 0x25)) + b"\x07", bytes([2]) + bytes(range(0x30, 0x38)) + bytes(range(0x40, 0x47)) + b"\x08",
                      bytes([0]) + bytes(range(0x50, 0x53)) + b"\x09"])
# read-only harnesses (parse/parse only): state that a reader might keep per type between two lines
HARNESS["grid"] = ("struct S { uint8 h; uint8 w; uint8 cells[h][w]; uint16 rows[h][w + 1]; uint8 t; };",
                   [bytes([2, 3]) + bytes(range(0x10, 0x16)) + bytes(range(0x20, 0x30)) + b"\x07", bytes([3, 1]) + bytes(range(0x40, 0x43)) + bytes(range(0x50, 0x5C)) + b"\x08",
                    bytes([1, 2]) + bytes(range(0x60, 0x62)) + bytes(range(0x70, 0x76)) + b"\x09"])
HARNESS["wideint"] = ("struct S { uint8 n; uint24 ids[n]; int48 v; uint128 q; int24 w; uint8 t; };",
                      [bytes([2]) + bytes(range(0x11, 0x17)) + bytes(range(0x21, 0x27)) + bytes(range(0x31, 0x41)) + bytes([0xF1, 0xF2, 0xF3]) + b"\x07",
                       bytes([1]) + bytes(range(0x81, 0x84)) + bytes(range(0x91, 0x97)) + bytes(range(0xA1, 0xB1)) + bytes([0x01, 0x02, 0x03]) + b"\x08",
                       bytes([3]) + bytes(range(0x41, 0x4A)) + bytes(range(0x51, 0x57)) + bytes(range(0x61, 0x71)) + bytes([0x7F, 0x80, 0x81]) + b"\x09"])
HARNESS["wstr"] = ("struct S { wchar s[]; uint8 t; wchar u[]; uint8 k; };",
                   ["a\U0001F600b".encode("utf-16-le") + b"\x00\x00\x05" + "xy".encode("utf-16-le") + b"\x00\x00\x06",
                    "\U00010000\u20ac".encode("utf-16-le") + b"\x00\x00\x07" + "\U0010FFFF".encode("utf-16-le") + b"\x00\x00\x08",
                    "plain".encode("utf-16-le") + b"\x00\x00\x09" + "\ud7ff\U0001F601".encode("utf-16-le") + b"\x00\x00\x0a"])
READ_ONLY = ("grid", "wideint", "wstr")
PAIRS = ("parse/parse", "parse/dumps", "dumps/dumps", "parse/deref")


def make(hname, compiled, pair, nthreads=2):
    from dissect.cstruct import cstruct

    text, datas = HARNESS[hname]
    kinds = pair.split("/")

    def fresh():
        """Fresh type objects for every execution: races on the *first* use of a shared object (lazily prepared state) stay visible."""
        cs = cstruct()
        cs.load(text, compiled=compiled)
        return cs.S

    holder = {}

    def parse_body(i):
        def body():
            S = holder["S"]
            st = io.BytesIO(datas[i])
            v = S(st)
            return ("parse", repr(impl.norm(v)), st.tell())
        return body

    def dumps_body(i):
        def body():
            return ("dumps", holder["pre"][i].dumps().hex())
        return body

    def deref_body(i):
        def body():
            S = holder["S"]
            st = io.BytesIO(datas[i])
            v = S(st)
            out = []
            for n in type(v).fields:
                x = getattr(v, n)
                if hasattr(x, "dereference"):
                    try:
                        out.append(repr(impl.norm(x.dereference())))
                    except Exception as e:  # noqa: BLE001
                        out.append("exc:" + type(e).__name__)
            return ("deref", repr(impl.norm(v)), out, st.tell())
        return body

    mk = {"parse": parse_body, "dumps": dumps_body, "deref": deref_body}

    def dispose(S):
        """The library's generated __init__ keeps the default values in its code object (not tracked by the collector), so a cstruct with a
        structure is never freed; tens of thousands of executions with fresh type objects need the cycle cut by hand."""
        cs = getattr(S, "cs", None)
        if cs is None:
            return
        for t in list(cs.typedefs.values()):
            if isinstance(t, type) and getattr(t, "cs", None) is cs:
                t.cs = None
        cs.typedefs.clear()

    def bodies():
        if "S" in holder:
            dispose(holder["S"])  # the previous execution is complete (its threads are joined) before the next one is built
        holder["S"] = fresh()
        if "dumps" in kinds:
            holder["pre"] = [holder["S"](d) for d in datas]  # values for the dump bodies (parsed before the threads start)
        return [mk[kinds[i % 2]](i) for i in range(nthreads)]

    expected = []
    for b in bodies():
        dispose(holder["S"])
        holder["S"] = fresh()  # sequential reference: every body alone on fresh type objects
        if "dumps" in kinds:
            holder["pre"] = [holder["S"](d) for d in datas]
        try:
            expected.append(("ok", b()))
        except Exception as e:  # noqa: BLE001
            expected.append(("exc", type(e).__name__, str(e)[:80]))
    return bodies, expected


def harnesses(tier):
    out = []
    for hname in HARNESS:
        for compiled in (False, True):
            for pair in PAIRS:
                if pair == "parse/deref" and hname != "ptr":
                    continue
                if hname in READ_ONLY and pair != "parse/parse":
                    continue
                if pair in ("parse/dumps", "dumps/dumps") and hname in ("ptr",):
                    continue
                out.append((hname, compiled, pair))
    return out


def jobs(tier):
    out = []
    for h in harnesses(tier):
        if tier == "quick":
            out.append(("explore", h, 1, None, 2))
            if h[2] == "parse/parse":
                out.append(("explore", h, 1, None, 3))
        else:
            # bound 2 for the parse/parse harnesses, sharded by the first deviation; bound 1 for the other pairs and for 3 threads
            if h[2] == "parse/parse" and h[0] not in READ_ONLY:
                # bound 2, sharded by the first deviation from the default schedule (the root execution is shard 0's extra)
                bodies, expected = make(*h)
                x = sched.Execution(bodies(), [], impl.LIBDIR).run()
                roots, leaves = [], []
                for r in sched.children(x, 0, 2):
                    if x.points[len(r) - 1][0] is None:
                        # a deviation at a free switch point (which thread starts) leaves the whole budget of 2 to the subtree below it - half of
                        # all executions: it is executed as a leaf and its children are distributed over the shards instead
                        xr = sched.Execution(bodies(), r, impl.LIBDIR).run()
                        leaves.append(r)
                        roots.extend(sched.children(xr, len(r), 2))
                    roots.append(r)
                n = 24
                for k in range(n):
                    rk = roots[k::n]
                    out.append(("shard", h, 2, rk, k == 0, [l for l in leaves if l in rk]))
            else:
                out.append(("explore", h, 1, None, 2))
            out.append(("explore", h, 1, None, 3))
    if tier == "thorough":
        for h in (("expr", True, "parse/parse"), ("bits", False, "parse/parse"), ("expr", False, "parse/parse")):
            out.append(("opcode", h, 1))
    return out


SHARDS = 24


def run(job) -> JobResult:
    res = JobResult()
    kind = job[0]
    if kind == "shard":
        _, h, bound, roots, with_root, leaves = job
        bodies, expected = make(*h)
        if with_root:
            x = sched.Execution(bodies(), [], impl.LIBDIR).run()
            _account(res, h, bound, 2, {"executions": 1, "points": len(x.points), "maxpoints": len(x.points), "capped": False}, {repr(x.results): 1}, [] if x.results == expected else [(list(x.choices), x.results, [])], expected)
        if roots:
            _account(res, h, bound, 2, *sched.explore(bodies, bound, lambda r: r == expected, impl.LIBDIR, roots=roots, leaves=leaves), expected)
        return res
    if kind == "shard-root":
        # enumerate the first-deviation prefixes, then explore each shard here (jobs are per harness; the pool runs harnesses in parallel)
        _, h, bound = job
        bodies, expected = make(*h)
        x = sched.Execution(bodies(), [], impl.LIBDIR).run()
        roots = list(sched.children(x, 0, bound))
        _account(res, h, bound, 2, *sched.explore(bodies, bound, lambda r: r == expected, impl.LIBDIR, roots=[[]][:1] + roots if False else roots), expected)
        # the root execution itself
        _account(res, h, bound, 2, {"executions": 1, "points": len(x.points), "maxpoints": len(x.points), "capped": False}, {repr(x.results): 1}, [] if x.results == expected else [(list(x.choices), x.results, [])], expected)
        return res
    if kind == "opcode":
        _, h, bound = job
        bodies, expected = make(*h)
        stats, outcomes, viols = sched.explore(bodies, bound, lambda r: r == expected, impl.LIBDIR, opcode_files=("expression.py", "bitbuffer.py", "types/base.py"))
        _account(res, h, bound, 2, stats, outcomes, viols, expected, gran="opcode")
        return res
    _, h, bound, _, nthreads = job
    bodies, expected = make(*h, nthreads=nthreads)
    stats, outcomes, viols = sched.explore(bodies, bound, lambda r: r == expected, impl.LIBDIR)
    _account(res, h, bound, nthreads, stats, outcomes, viols, expected)
    return res


def _account(res, h, bound, nthreads, stats, outcomes, viols, expected, gran="line"):
    res.evaluations += stats["executions"]
    res.states += stats["executions"]
    res.traces += stats["executions"]
    res.transitions += stats["points"]
    res.nontrivial += max(0, stats["executions"] - 1)  # every schedule except the default one has at least one switch inside library code
    res.capped = res.capped or stats["capped"]
    for k in outcomes:
        res.outcomes.add((h, k[:200]))
    res.extra[f"executions:{h[0]}:{'compiled' if h[1] else 'interpreted'}:{h[2]}:{nthreads}t:b{bound}:{gran}"] += stats["executions"]
    real = [v for v in viols if v is not None]
    for choices, results, where in real[:3]:
        res.violations.append(Violation("schedule:result-differs", f"schedule|{h[0]}|{'compiled' if h[1] else 'interpreted'}|{h[2]}",
                                        {"harness": list(h), "threads": nthreads, "choices": choices, "granularity": gran},
                                        f"harness {h} with {nthreads} threads: schedule with switches at {where} gives {results}, sequential {expected} ({len(viols)} violating schedules of {stats['executions']})",
                                        {"harness": h[0], "reader": "compiled" if h[1] else "interpreted", "pair": h[2]}))
    if len(res.samples) < 2:
        res.samples.append({"harness": list(h), "threads": nthreads, "bound": bound, "executions": stats["executions"], "max_points": stats["maxpoints"], "distinct_outcomes": len(outcomes)})


def replay(case):
    h = tuple(case["harness"])
    bodies, expected = make(*h, nthreads=case.get("threads", 2))
    opfiles = ("expression.py", "bitbuffer.py", "types/base.py") if case.get("granularity") == "opcode" else ()
    out = []
    results = []
    for _ in range(2):
        x = sched.Execution(bodies(), case["choices"], impl.LIBDIR, opfiles).run()
        results.append(x.results)
    if results[0] != results[1]:
        out.append(Violation("checker:nondeterministic-replay", "", case, f"{results}"))
    elif results[0] != expected:
        out.append(Violation("schedule:result-differs", "", case, f"{results[0]} vs sequential {expected}"))
    return out


def meta(tier):
    return {
        "rule": "a case is one complete schedule of a 2-thread (thorough: also 3-thread) harness in which the threads parse / dump / dereference independent streams "
        "with the SAME type objects of one cstruct; scheduling points = every source line executed inside the library (incl. generated readers and "
        "generated methods); ALL schedules with <=1 preemption are executed (thorough: <=2 for the parse/parse harnesses, and <=1 at byte-code "
        "granularity inside expression.py, bitbuffer.py, types/base.py); oracle: every thread's result equals its sequential result; a violating "
        "schedule is replayed twice before it is reported; non-trivial = schedules with at least one switch",
        "bounds": {"preemptions": 1 if tier == "quick" else 2, "threads": "2 (3 for parse/parse)" if tier == "quick" else 3, "harnesses": [list(h) for h in harnesses(tier)]},
        "assumptions": ["switches inside C code (io, struct, enum internals) are not explored - they hold the GIL", "free-threaded builds are out of scope"],
    }
