"""C10 - expressions evaluate with C precedence and left associativity, repeatably."""
from __future__ import annotations

import functools
import itertools

from .. import impl
from ..refmodel import expr as rexpr
from ..runner import JobResult, Violation

ID = "C10"
LEVEL = "model_checking"
TASKS_PER_CHILD = 4

CTX = {"a": 3, "b": 5, "c": 9, "x": 4, "u": 4, "a1": 11, "_a": 12}
CTX2 = {"a": 250, "b": 0, "c": 0, "K": 0, "x": 7, "u": 1, "a1": 2, "_a": 65535}  # c and K are also constants: a context value of 0 still wins
CTX3 = {"b": 5}  # lacks most identifiers
CONSTS = {"K": 6, "c": 100, "BIG": 0xFFFFFFFFFFFFFFFF, "M1": 1}
DEFS = "#define K 6\n#define c 100\n#define BIG 0xFFFFFFFFFFFFFFFF\n#define M1 1\nstruct S4 { uint32 a; };\nstruct S9 { uint8 a; uint64 b; };"
SIZEOF = {"uint32": 4, "S4": 4, "S9": 9, "uint8": 1, "int128": 16, "wchar": 2}

ATOMS_6 = ["1", "7", "0x1F", "a", "K", "sizeof(uint32)"]
ATOMS_3 = ["2", "a", "x"]
ATOMS_4 = ["2", "7", "a", "u"]
ATOMS_2 = ["3", "a"]
ATOMS_ALL = ["0", "1", "2", "7", "10", "010", "017", "0x1F", "0X1f", "0xff", "0b101", "0B11", "3u", "4U", "4UL", "5ll", "6lu", "7ull", "8LL", "9Ul", "0x10u", "0b11L",
             "a", "b", "K", "c", "u", "x", "a1", "_a", "BIG", "M1", "sizeof(uint32)", "sizeof(S4)", "sizeof(S9)", "sizeof(int128)", "sizeof(wchar)",
             "18446744073709551615", "0xFFFFFFFFFFFFFFFFFFFF"]


def gen(L: int, atoms: tuple):
    """All well-formed token sequences of exactly L tokens from the unambiguous grammar X -> U (bop U)*, U -> uop U | P, P -> atom | ( X )."""

    @functools.lru_cache(None)
    def P(n):
        out = []
        if n == 1:
            out += [(a,) for a in atoms]
        if n >= 3:
            out += [("(",) + e + (")",) for e in X(n - 2)]
        return out

    @functools.lru_cache(None)
    def U(n):
        out = list(P(n))
        if n >= 2:
            out += [(u,) + e for u in rexpr.UN for e in U(n - 1)]
        return out

    @functools.lru_cache(None)
    def X(n):
        out = list(U(n))
        for j in range(1, n - 1):
            for l in X(j):
                for op in rexpr.BIN:
                    for r in U(n - j - 1):
                        out.append(l + (op,) + r)
        return out

    return X(L)


def specs(tier):
    if tier == "quick":
        return [("A6", 6, tuple(ATOMS_6)), ("B7", 7, tuple(ATOMS_3)), ("C3", 3, tuple(ATOMS_ALL)), ("D6u", 6, tuple(ATOMS_4)), ("E7", 7, ("7", "a", "K", "0x1F", "sizeof(S9)"))]
    return [("A7", 7, tuple(ATOMS_6)), ("B8", 8, tuple(ATOMS_4)), ("B9", 9, tuple(ATOMS_2)), ("C3", 3, tuple(ATOMS_ALL)), ("C5", 5, tuple(ATOMS_ALL[:14] + ["a", "u", "K", "sizeof(S9)"]))]


NSHARDS = 16


def jobs(tier):
    out = [("histories", tier), ("callers", tier)]
    for name, L, atoms in specs(tier):
        for sh in range(NSHARDS):
            out.append(("grammar", name, L, atoms, sh))
    return out


def flat_tokens(toks):
    flat = []
    for t in toks:
        if t.startswith("sizeof("):
            flat += ["sizeof", "(", t[7:-1], ")"]
        else:
            flat.append(t)
    return flat


_ENV = None


def env():
    global _ENV
    if _ENV is None:
        e = dict(CONSTS)
        e.update(CTX)
        for k, v in SIZEOF.items():
            e["sizeof:" + k] = v
        _ENV = e
    return _ENV


def _cs():
    from dissect.cstruct import cstruct

    cs = cstruct()
    cs.load(DEFS)
    return cs


SEPS = ("", " ", "  \t")


def run_grammar(name, Lmax, atoms, shard) -> JobResult:
    from dissect.cstruct import Expression

    res = JobResult()
    cs = _cs()
    e = env()
    idx = 0
    for L in range(1, Lmax + 1):
        for toks in gen(L, atoms):
            idx += 1
            if idx % NSHARDS != shard:
                continue
            flat = flat_tokens(toks)
            try:
                exp = rexpr.ref_eval(flat, e)
            except rexpr.OutOfDomain:
                res.extra["out_of_domain_skipped"] += 1
                continue
            res.states += 1
            nontriv = sum(1 for t in toks if t in rexpr.PREC or t in ("~",)) >= 2
            for si, sep in enumerate(SEPS):
                if si == 2 and idx % 7:
                    continue
                text = sep.join(toks)
                res.evaluations += 1
                res.transitions += 2
                try:
                    ex = Expression(cs, text)
                    got = ex.evaluate(CTX)
                    got2 = ex.evaluate(CTX)
                except Exception as err:  # noqa: BLE001
                    res.violations.append(Violation("eval:raises", f"eval:raises|{impl.exc_sig(err)}|{_shape(toks)}", {"expr": text, "ctx": "CTX"},
                                                    f"{text!r}: {impl.exc_sig(err)} {err!r}; expected {exp}", {"shape": _shape(toks)}))
                    continue
                if got != exp:
                    res.violations.append(Violation("eval:wrong-value", f"eval:wrong-value|{_shape(toks)}", {"expr": text, "ctx": "CTX"},
                                                    f"{text!r} = {got}, C semantics give {exp}", {"shape": _shape(toks)}))
                elif got2 != got:
                    res.violations.append(Violation("eval:unstable", f"eval:unstable|{_shape(toks)}", {"expr": text, "ctx": "CTX"},
                                                    f"{text!r}: first {got}, second {got2}", {"shape": _shape(toks)}))
                elif nontriv:
                    res.nontrivial += 1
                res.traces += 1
            if len(res.samples) < 2 and L >= 4:
                res.samples.append({"expr": " ".join(toks), "value": exp})
    return res


def _shape(toks):
    """Operator skeleton of an expression (for clustering)."""
    return " ".join(t if (t in rexpr.PREC or t in "()~") else "n" for t in toks)[:60]


HIST_EXPRS = ["a", "-a", "a + K", "a * 2 + x", "-(a + 5)", "~a & 0xff", "a << 2 | b", "c", "K", "sizeof(S4) * a", "u - 1", "-u", "a - -b", "x % 3 + a / 2", "(a)", "7", "b ^ a ^ 1"]
CONTEXTS = [("CTX", CTX), ("CTX2", CTX2), ("CTX3", CTX3), ("None", None)]


def run_histories(tier) -> JobResult:
    """BFS: all sequences of <=3 (thorough 4) evaluations of one Expression object over 4 contexts; every result = a fresh object's result."""
    from dissect.cstruct import Expression

    res = JobResult()
    cs = _cs()
    depth = 3 if tier == "quick" else 4
    seen = set()
    for text in HIST_EXPRS:
        fresh = {}
        for cname, ctx in CONTEXTS:
            try:
                fresh[cname] = ("ok", Expression(cs, text).evaluate(ctx))
            except Exception as e:  # noqa: BLE001
                fresh[cname] = ("exc", type(e).__name__)
        # cross-check the fresh result with the model where defined
        for cname, ctx in CONTEXTS:
            envv = dict(CONSTS)
            envv.update(ctx or {})
            for k, v in SIZEOF.items():
                envv["sizeof:" + k] = v
            try:
                exp = ("ok", rexpr.ref_eval(flat_tokens(rexpr.tokenize(text)), envv))
            except KeyError:
                exp = ("exc", None)
            except rexpr.OutOfDomain:
                continue
            if exp[0] == "ok" and fresh[cname] != exp:
                res.violations.append(Violation("history:fresh-vs-model", f"history:fresh-vs-model|{text}", {"expr": text, "ctx": cname}, f"{text!r} under {cname}: {fresh[cname]} model {exp}"))
            if exp[0] == "exc" and fresh[cname][0] == "ok":
                res.violations.append(Violation("history:unbound-identifier-evaluates", f"history:unbound|{text}", {"expr": text, "ctx": cname}, f"{text!r} under {cname} (identifier unbound): returned {fresh[cname]}"))
        for d in range(1, depth + 1):
            for hist in itertools.product(range(len(CONTEXTS)), repeat=d):
                ex = Expression(cs, text)
                for step, ci in enumerate(hist):
                    cname, ctx = CONTEXTS[ci]
                    try:
                        got = ("ok", ex.evaluate(ctx))
                    except Exception as e:  # noqa: BLE001
                        got = ("exc", type(e).__name__)
                    res.transitions += 1
                    state = (text, tuple(ex.tokens), tuple(map(str, getattr(ex, "stack", ()))), tuple(map(str, getattr(ex, "queue", ()))))
                    if state not in seen:
                        seen.add(state)
                    if got != fresh[cname]:
                        res.violations.append(Violation("history:differs-from-fresh", f"history:differs-from-fresh|{text}", {"expr": text, "history": [CONTEXTS[i][0] for i in hist[: step + 1]]},
                                                        f"{text!r} after evaluations {[CONTEXTS[i][0] for i in hist[:step]]}: under {cname} gives {got}, a fresh object gives {fresh[cname]}"))
                        break
                res.evaluations += 1
                res.traces += 1
                res.nontrivial += 1 if d > 1 else 0
    res.states += len(seen)
    res.samples.append({"history": ["CTX", "CTX3", "CTX2"], "expr": HIST_EXPRS[3]})
    return res


def run_callers(tier) -> JobResult:
    """Expressions through their callers: #define chains, array sizes, enum values."""
    from dissect.cstruct import cstruct

    res = JobResult()
    text = ("#define A 2\n#define B A*3+1\n#define C (B<<2)|A\n#define D -A+B*2\n#define E ~A&0xff\n#define F C/A%5\n#define G sizeof(uint32)*A\n"
            "enum En : uint16 { e0, e1 = e0 + 5, e2, e3 = e1 << 2 | 1, e4 = -1 + e3 * 2 - A };\n"
            "struct R { uint8 n; uint8 m; uint8 a[n * 2 + m]; uint8 b[(n + 1) * A - m]; uint8 c[-n + 4]; uint8 t; };")
    expect_consts = {"A": 2, "B": 7, "C": 30, "D": 12, "E": 253, "F": 0, "G": 8}
    expect_enum = {"e0": 0, "e1": 5, "e2": 6, "e3": 21, "e4": 39}
    for compiled in (False, True):
        cs = cstruct()
        cs.load(text, compiled=compiled)
        res.transitions += 1
        for k, v in expect_consts.items():
            res.evaluations += 1
            res.states += 1
            if cs.consts.get(k) != v:
                res.violations.append(Violation("caller:define", f"caller:define|{k}", {"define": k}, f"#define {k}: {cs.consts.get(k)!r}, C gives {v}"))
        for k, v in expect_enum.items():
            res.evaluations += 1
            res.states += 1
            if cs.En[k].value != v:
                res.violations.append(Violation("caller:enum-value", f"caller:enum|{k}", {"member": k}, f"enum member {k} = {cs.En[k].value}, C gives {v}"))
        # array sizes, same type parsed with different inputs in both orders (stale state would show)
        for order in ((1, 2), (2, 1), (0, 3), (3, 0), (2, 2)):
            outs = []
            for n in order:
                for m in (0, 1, 3):
                    la, lb, lc = n * 2 + m, max(0, (n + 1) * 2 - m), max(0, 4 - n)
                    data = bytes([n, m]) + bytes(range(1, la + 1)) + bytes(range(101, 101 + lb)) + bytes(range(201, 201 + lc)) + b"\x77"
                    res.evaluations += 1
                    res.states += 1
                    res.transitions += 1
                    res.nontrivial += 1
                    try:
                        v = cs.R(data)
                        got = (len(v.a), len(v.b), len(v.c), int(v.t))
                    except Exception as e:  # noqa: BLE001
                        got = ("exc", impl.exc_sig(e))
                    if got != (la, lb, lc, 0x77):
                        res.violations.append(Violation("caller:array-size", f"caller:array-size|compiled={compiled}", {"n": n, "m": m, "compiled": compiled},
                                                        f"struct R with n={n} m={m} (compiled={compiled}): got {got}, expected {(la, lb, lc, 0x77)}"))
    # every literal form as a constant array dimension, a #define value and an enum value: the callers hand the text to the evaluator unchanged
    lits = {"010": 8, "0017": 15, "0x10": 16, "0X1f": 31, "0b101": 5, "12": 12, "07": 7, "010u": 8, "0x10UL": 16, "12ull": 12, "1": 1, "0": 0, "00": 0, "(010)": 8, "010 + 0": 8, "2 * 010": 16}
    for lit, val in lits.items():
        for compiled in (False, True):
            cs = cstruct()
            res.evaluations += 1
            res.states += 1
            res.transitions += 1
            res.nontrivial += 1
            case = {"literal": lit, "compiled": compiled}
            try:
                cs.load(f"#define LIT {lit}\nenum LE : uint16 {{ LA = {lit}, LB }};\nstruct L {{ uint8 a[{lit}]; uint8 g[2][{lit}]; uint8 t; }};\ntypedef uint16 vec[{lit}];", compiled=compiled)
                got = (cs.consts.get("LIT"), cs.LE.LA.value, cs.LE.LB.value, len(cs.L), cs.L.fields["a"].type.num_entries, len(cs.vec))
            except Exception as e:  # noqa: BLE001
                got = ("exc", impl.exc_sig(e))
            exp = (val, val, val + 1, 3 * val + 1, val, 2 * val)
            if got != exp:
                res.violations.append(Violation("caller:literal", f"caller:literal|{lit}", case, f"literal {lit!r} as #define / enum value / array dimensions / typedef dimension: got {got}, C gives {exp}"))
    # sizeof of a name that means different types in different cstruct objects, or is re-bound in one (no result may be remembered by name)
    for order in ((0, 1), (1, 0)):
        objs = []
        for i in (0, 1):
            c = cstruct()
            c.load("struct hdr { uint32 a; uint32 b; };" if i == 0 else "struct hdr { uint8 a; };")
            c.load("struct U { uint8 n; uint8 pad[sizeof(hdr) * 2 + n]; uint8 t; };\n#define HS sizeof(hdr) + 1")
            objs.append(c)
        for i in order:
            c = objs[i]
            sz = 8 if i == 0 else 1
            res.evaluations += 1
            res.states += 1
            res.nontrivial += 1
            try:
                v = c.U(bytes([1]) + bytes(2 * sz + 1) + b"\x77")
                got = (len(v.pad), int(v.t), c.consts["HS"])
            except Exception as e:  # noqa: BLE001
                got = ("exc", impl.exc_sig(e))
            if got != (2 * sz + 1, 0x77, sz + 1):
                res.violations.append(Violation("caller:sizeof", "caller:sizeof|two-objects", {"sizeof": "two-objects", "order": list(order), "object": i},
                                                f"two cstruct objects define 'hdr' with sizes 8 and 1 (evaluated in order {order}): object {i} gives {got}, expected {(2 * sz + 1, 0x77, sz + 1)}"))
    c = cstruct()
    c.load("struct hdr { uint32 a; uint32 b; };\nstruct U { uint8 n; uint8 pad[sizeof(hdr) + n]; uint8 t; };")
    try:
        first = len(c.U(bytes([1]) + bytes(9) + b"\x77").pad)
        c.add_type("hdr", c.uint16, replace=True)
        second = len(c.U(bytes([1]) + bytes(3) + b"\x77").pad)
        res.evaluations += 1
        if (first, second) != (9, 3):
            res.violations.append(Violation("caller:sizeof", "caller:sizeof|rebound", {"sizeof": "rebound"}, f"sizeof(hdr) + n with n = 1: {first} elements, after re-binding hdr to uint16: {second} (expected 9 and 3)"))
    except Exception as e:  # noqa: BLE001
        res.violations.append(Violation("caller:sizeof", "caller:sizeof|rebound", {"sizeof": "rebound"}, f"{impl.exc_sig(e)} {e!r}"))
    res.samples.append({"defines": expect_consts, "enum": expect_enum, "literals": list(lits)})
    return res


def run(job) -> JobResult:
    if job[0] == "grammar":
        return run_grammar(*job[1:])
    if job[0] == "histories":
        return run_histories(job[1])
    return run_callers(job[1])


def replay(case):
    from dissect.cstruct import Expression

    if "history" in case:
        return [v for v in run_histories("thorough").violations if v.case.get("expr") == case["expr"]]
    if "expr" not in case:
        return run_callers("thorough").violations
    cs = _cs()
    text = case["expr"]
    flat = flat_tokens(rexpr.tokenize(text))
    exp = rexpr.ref_eval(flat, env())
    out = []
    try:
        ex = Expression(cs, text)
        got = ex.evaluate(CTX)
        got2 = ex.evaluate(CTX)
        if got != exp:
            out.append(Violation("eval:wrong-value", "", case, f"{text!r} = {got}, C semantics give {exp}"))
        elif got2 != got:
            out.append(Violation("eval:unstable", "", case, f"{text!r}: {got} then {got2}"))
    except Exception as e:  # noqa: BLE001
        out.append(Violation("eval:raises", "", case, f"{text!r}: {e!r}; expected {exp}"))
    return out


def meta(tier):
    return {
        "rule": "every well-formed token sequence of the expression grammar (atom, operator, parenthesis = one token; unambiguous grammar so each "
        "string appears once) up to the stated lengths over the stated atom sets, joined without blanks, with single blanks and (every 7th) with "
        "blank+tab runs, evaluated twice by the real evaluator and compared with the precedence-climbing reference (validated against Python "
        "eval in selftest); expressions that divide by zero, divide/mod negative operands or shift out of [0,64] are skipped (counted); plus BFS "
        "over evaluation histories (<=3/4 evaluations x 4 contexts, result = fresh object's) and expressions through #define, enum values and "
        "array sizes; non-trivial = at least two operators",
        "bounds": {"specs": [(n, L, len(a)) for n, L, a in specs(tier)], "history_depth": 3 if tier == "quick" else 4},
        "assumptions": ["/ and % only for non-negative operands, shifts in [0,64] (C semantics undefined or implementation-defined otherwise)"],
    }
