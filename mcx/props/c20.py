"""C20 - generated type stubs are valid Python naming exactly the loaded definitions."""
from __future__ import annotations

import ast
import itertools
import keyword

from .. import impl
from ..runner import JobResult, Violation

ID = "C20"
LEVEL = "model_checking"
TASKS_PER_CHILD = 20

ITEMS = {
    "struct": "struct A { uint8 a; uint16 b; };",
    "union": "union UN { uint8 a; uint16 b; };",
    "nested_named": "struct I { uint8 x; }; struct B { I i; I arr[2]; I *p; I m[2][2]; };",
    "nested_anon_member": "struct C { struct { uint8 x; } named; };",
    "inline_named": "struct Pk { struct Payload { uint8 x; } body; struct Trailer { uint8 y; } t[2]; uint8 z; };",
    "anon_member": "struct D { struct { uint8 y; }; uint8 z; };",
    "anon_array": "struct E_ { struct { uint8 x; } arr[2]; };",
    "anon_nested_containers": "struct NC { struct { uint8 x; } grid[2][3]; struct { uint8 y; } *slots[4]; union { uint8 z; uint16 zz; } **indirect; struct inl_nc { uint8 q; } *inl[2][2]; };",
    "union_in_struct": "struct F { union { uint8 u; uint16 v; } un; union { uint8 s; uint8 t; }; };",
    "bits": "struct G { uint8 a : 4; uint8 b : 4; };",
    "ptrs": "struct H { uint8 *p; char *s; H *selfp; void *v; uint8 **pp; struct { uint8 x; } *anonp; };",
    "arrays": "struct J { uint8 a[2]; uint8 m[2][3]; char c[4]; wchar w[2]; uint8 d[]; uint8 cnt; uint16 e[cnt]; char *ps[2]; };",
    "enum": "enum En : uint8 { P, Q }; struct K { En e; En arr[2]; };",
    "flag": "flag Fl { X = 1, Y = 2 };",
    "flag_zero_composite": "flag Mode { NONE = 0, USER = 1, GROUP = 2, OTHER = 4, ALL = 7 };",
    "flag_masks": "flag Mask : uint32 { LOW = 0x0000FFFF, HIGH = 0xFFFF0000 };",
    "enum_alias": "enum Dup { D1 = 1, D2 = 1, D3 = 2 };",
    "anon_enum": "enum { AA = 1, BB };",
    "anon_flag": "flag { PERM_R = 1, PERM_W = 2, PERM_RW = 3 };",
    "empty_enum": "enum Em { };\nflag Fm : uint8 { };",
    "inline_shadows_global": "struct Sh { uint32 g; };\nstruct ShA { struct Sh { uint8 k; } x; uint8 t; };\nstruct ShB { Sh y; };",
    "anon_enum_typed": "enum : uint8 { TA = 200, TB };",
    "typedef_scalar": "typedef uint16 word; typedef word word2; struct L { word w; word2 w2; };",
    "typedef_struct": "typedef struct _M { uint8 a; } M, M2;",
    "typedef_anon_struct": "typedef struct { uint8 a; } N;",
    "typedef_anon_struct2": "typedef struct { uint8 lo; uint8 hi; } RANGE, SPAN; struct UsesRange { RANGE r; SPAN s; };",
    "typedef_array": "typedef uint8 arr4[4]; struct O { arr4 a; };",
    "typedef_ptr": "typedef uint8 *bptr; struct P_ { bptr p; };",
    "typedef_enum": "enum En2 { R }; typedef En2 En2Alias;",
    "consts": "#define CI 1\n#define CN -5\n#define CH 0x10\n#define CF 1.5\n#define CS \"str\"\n#define CB b'xx'\n#define CE (CI + 2)\n#define CZ 0\n#define CU some text here\n",
    "scalars": "struct Q { int8 a; uint8 b; int16 c; uint16 d; int32 e; uint32 f; int64 g; uint64 h; int24 i; uint24 j; int48 k; uint48 l; int128 m; uint128 n; float16 o; float p; double q; char r; wchar s; uleb128 t; ileb128 u; unsigned long long v; WORD w; };",
    "selfref_array": "struct Node { uint8 v; Node *next; Node *kids[2]; };",
}


CTX = {"cls": "cstruct", "mod": None}


def _modname(node):
    """Name of a library-level helper (CharArray, Array, ...), with or without the module prefix used in file stubs."""
    if isinstance(node, ast.Name) and CTX["mod"] is None:
        return node.id
    if isinstance(node, ast.Attribute) and isinstance(node.value, ast.Name) and node.value.id == CTX["mod"]:
        return node.attr
    return None


def resolve_hint(node, cs):
    if isinstance(node, ast.Attribute) and isinstance(node.value, ast.Name) and node.value.id == CTX["cls"]:
        return ("type", getattr(cs, node.attr, None), node.attr)
    if _modname(node) in ("CharArray", "WcharArray"):
        return (_modname(node),)
    if isinstance(node, ast.Name):
        return ("local", node.id)
    if isinstance(node, ast.Subscript) and _modname(node.value) in ("Array", "Pointer"):
        return (_modname(node.value), resolve_hint(node.slice, cs))
    return ("?", ast.dump(node)[:60])


def expect_hint(t):
    from dissect.cstruct import types as T

    if issubclass(t, T.CharArray):
        return ("CharArray",)
    if issubclass(t, T.WcharArray):
        return ("WcharArray",)
    if issubclass(t, T.Pointer):
        return ("Pointer", expect_hint(t.type))
    if issubclass(t, T.Array):
        return ("Array", expect_hint(t.type))
    return ("named", t)


def match(h, e, local_classes, aliases, cs):
    if e[0] in ("CharArray", "WcharArray"):
        return h == e
    if e[0] in ("Pointer", "Array"):
        if h[0] == e[0]:
            return match(h[1], e[1], local_classes, aliases, cs)
        # an alias of an array / pointer type declared earlier in the stub
        if h[0] == "type" and h[1] is not None:
            return _same_shape(h[1], e)
        return False
    t = e[1]
    if h[0] == "type":
        return h[1] is t
    if h[0] == "local":
        return h[1] == t.__name__ and (h[1] in local_classes)
    return False


def _same_shape(t, e):
    return expect_hint(t) == e


def check(text, extra=None, legacy=False, pre=None):
    """-> list of (kind, detail)"""
    from dissect.cstruct import cstruct
    from dissect.cstruct.tools.stubgen import generate_cstruct_stub

    cs = cstruct()
    if pre:
        pre(cs)
    cs.load(text, **({"deftype": cstruct.DEF_LEGACY} if legacy else {}))
    if extra:
        extra(cs)
    try:
        stub = generate_cstruct_stub(cs)
    except Exception as e:  # noqa: BLE001
        return [("generate:raises", f"{impl.exc_sig(e)} {e!r}")]
    try:
        tree = ast.parse(stub)
    except SyntaxError as e:
        line = stub.splitlines()[e.lineno - 1].strip()[:80] if e.lineno else ""
        return [("syntax", f"not valid Python: {line!r}")]
    CTX.update(cls="cstruct", mod=None)
    return check_class(cs, tree.body[0])


def check_file(texts):
    """A module that creates one cstruct object per text (c0, c1, ...): generate_file_stub must declare a class per object, each naming exactly
    that object's definitions - also when the objects define types of the same name."""
    import tempfile
    from pathlib import Path

    from dissect.cstruct import cstruct
    from dissect.cstruct.tools.stubgen import generate_file_stub

    src = "from dissect.cstruct import cstruct\n" + "".join(f"c{i} = cstruct().load({t!r})\n" for i, t in enumerate(texts))
    with tempfile.TemporaryDirectory(prefix="c20-") as d:
        path = Path(d) / "defs_mod.py"
        path.write_text(src)
        try:
            stub = generate_file_stub(path, Path(d))
        except Exception as e:  # noqa: BLE001
            return [("generate:raises", f"{impl.exc_sig(e)} {e!r}")]
    try:
        tree = ast.parse(stub)
    except SyntaxError as e:
        line = stub.splitlines()[e.lineno - 1].strip()[:80] if e.lineno else ""
        return [("syntax", f"not valid Python: {line!r}")]
    issues = []
    classes = {n.name: n for n in tree.body if isinstance(n, ast.ClassDef)}
    names = {n.target.id: n for n in tree.body if isinstance(n, ast.AnnAssign) and isinstance(n.target, ast.Name)}
    for i, t in enumerate(texts):
        cname = f"_c{i}"
        if cname not in classes:
            issues.append(("file:missing-class", f"no class for cstruct object c{i}"))
            continue
        node = names.get(f"c{i}")
        names_cls = node is not None and any(isinstance(x, ast.Name) and x.id == cname for x in (node.value, node.annotation))
        if not names_cls:  # either "c0: TypeAlias = _c0" or "c0: _c0"
            issues.append(("file:missing-object-name", f"module attribute c{i} is not declared as {cname}"))
        cs = cstruct()
        cs.load(t)
        CTX.update(cls=cname, mod="__cs__")
        try:
            issues += [(k, f"c{i}: {d_}") for k, d_ in check_class(cs, classes[cname])]
        finally:
            CTX.update(cls="cstruct", mod=None)
    for extra in set(classes) - {f"_c{i}" for i in range(len(texts))}:
        issues.append(("file:extra-class", extra))
    return issues


def check_class(cs, cls):
    from dissect.cstruct import cstruct
    from dissect.cstruct import types as T

    issues = []
    empty = cstruct()
    declared = {}
    for node in cls.body:
        if isinstance(node, ast.ClassDef):
            if node.name in declared:
                issues.append(("duplicate-declaration", node.name))
            declared[node.name] = node
        elif isinstance(node, ast.AnnAssign) and isinstance(node.target, ast.Name):
            if node.target.id in declared:
                issues.append(("duplicate-declaration", node.target.id))
            declared[node.target.id] = node
    user_types = [n for n in cs.typedefs if n not in empty.typedefs]
    user_consts = [n for n in cs.consts if n not in empty.consts]
    for n in user_types + user_consts:
        if n.isidentifier() and not keyword.iskeyword(n) and n not in declared:
            issues.append(("missing-declaration", n))
    for n in declared:
        if n not in cs.typedefs and n not in cs.consts:
            issues.append(("extra-declaration", n))
    # constants: the literal is the constant's value
    for n in user_consts:
        node = declared.get(n)
        if isinstance(node, ast.AnnAssign):
            ann = node.annotation
            if isinstance(ann, ast.Subscript) and isinstance(ann.value, ast.Name) and ann.value.id == "Literal":
                try:
                    lit = ast.literal_eval(ann.slice)
                    val = cs.consts[n]
                    val = val.value if hasattr(val, "value") and hasattr(val, "name") else val
                    if lit != val:
                        issues.append(("constant-value", f"{n}: Literal[{lit!r}] but the constant is {val!r}"))
                except Exception:  # noqa: BLE001
                    issues.append(("constant-literal", f"{n}: {ast.dump(ann.slice)[:60]}"))
    aliases = {}
    for n, node in declared.items():
        if n not in cs.typedefs:
            continue
        t = cs.resolve(n)
        if isinstance(node, ast.AnnAssign):
            # alias declaration: X: TypeAlias = <hint>; the hint must denote the aliased type
            if node.value is not None and isinstance(t, type):
                h = resolve_hint(node.value, cs)
                ok = False
                if h[0] == "type":
                    ok = h[1] is t
                elif h[0] == "local":
                    # the target must itself be declared: a class, or an alias declared EARLIER (never the alias itself)
                    order = list(declared)
                    tgt = declared.get(h[1])
                    ok = tgt is not None and h[1] != n and (isinstance(tgt, ast.ClassDef) or order.index(h[1]) < order.index(n))
                    ok = ok and h[1] in cs.typedefs and cs.resolve(h[1]) is t
                elif h[0] in ("Array", "Pointer", "CharArray", "WcharArray"):
                    ok = match(h, expect_hint(t), {}, aliases, cs)
                if not ok:
                    issues.append(("alias-target", f"{n} = {ast.unparse(node.value)} does not denote {t.__name__}"))
            continue
        if isinstance(node, ast.ClassDef) and isinstance(t, type):
            if hasattr(t, "__members__"):
                names = [c.targets[0].id for c in node.body if isinstance(c, ast.Assign) and isinstance(c.targets[0], ast.Name)]
                names += [c.target.id for c in node.body if isinstance(c, ast.AnnAssign) and isinstance(c.target, ast.Name)]
                if set(names) != set(t.__members__):
                    issues.append(("enum-members", f"{n}: stub names {names}, the enum's members are {list(t.__members__)}"))
            if issubclass(t, T.Structure):
                if node.name != t.__name__:
                    issues.append(("class-name", f"{n}: class {node.name} for type {t.__name__}"))
                _walk(node, t, n, cs, issues, aliases)
    return issues


def _walk(node, t, path, cs, issues, aliases):
    from dissect.cstruct import types as T

    local = {c.name: c for c in node.body if isinstance(c, ast.ClassDef)}
    anns = [(c.target.id, c.annotation) for c in node.body if isinstance(c, ast.AnnAssign) and isinstance(c.target, ast.Name)]
    names = [a for a, _ in anns]
    if names != list(t.fields):
        issues.append(("field-names", f"{path}: stub fields {names}, structure fields {list(t.fields)}"))
    for fname, ann in anns:
        if fname not in t.fields:
            continue
        ft = t.fields[fname].type
        h = resolve_hint(ann, cs)
        e = expect_hint(ft)
        if not match(h, e, local, aliases, cs):
            issues.append(("field-hint", f"{path}.{fname}: hint {ast.unparse(ann)} does not denote the field type {ft.__name__}"))
    for lname, lnode in local.items():
        base = []
        for f in t.__fields__:
            c = f.type
            while issubclass(c, (T.BaseArray, T.Pointer)):
                c = c.type
            base.append(c)
        m = [c for c in base if c.__name__ == lname]
        if not m:
            issues.append(("inline-unknown", f"{path}: inline class {lname} is not the type of any field"))
            continue
        if lname in cs.typedefs and cs.resolve(lname) is m[0]:
            issues.append(("inline-redeclares-global", f"{path}: {lname} is a global type but is declared inline again"))
        _walk(lnode, m[0], path + "." + lname, cs, issues, aliases)


def run_sets(tier, chunk) -> JobResult:
    res = JobResult()
    for combo in chunk:
        text = "\n".join(ITEMS[c] for c in combo)
        res.evaluations += 1
        res.states += 1
        res.transitions += 2
        res.traces += 1
        if len(combo) > 1:
            res.nontrivial += 1
        try:
            iss = check(text)
        except Exception as e:  # noqa: BLE001
            import traceback

            iss = [("checker-crash", traceback.format_exc()[-400:])]
        for kind, d in iss:
            k = "checker:" + kind if kind == "checker-crash" else kind
            res.violations.append(Violation(k, f"{kind}|{str(d)[:50]}", {"items": list(combo)}, f"definitions {list(combo)}: {kind}: {d}", {"items": "+".join(combo)}))
        if len(res.samples) < 2:
            res.samples.append({"definitions": text[:300]})
    return res


LEGACY = {
    "tagged_typedef": "typedef struct _SECTION {\n uint32 offset;\n char name[8];\n} SECTION, SECTION_ALIAS;\n",
    "anon_typedef": "typedef struct {\n uint8 major;\n uint8 minor;\n} VI;\n",
    "plain": "struct IMAGE {\n uint8 a;\n uint16 b[2];\n uint8 *p;\n uint16 bits:4;\n uint16 rest:12;\n};\n",
    "enum": "enum LE : uint8 {\n A = 1,\n B\n};\n",
    "flag": "flag LF {\n X,\n Y\n};\n",
    "consts": "#define LVERSION 2\n#define LNAME \"x\"\n",
    "scalar_typedef": "typedef uint16 LWORD;\n",
    "fwd_typedef": "typedef LATERL FWDL;\nstruct LATERL {\n uint8 a;\n};\n",
    "user": "struct USER {\n _SECTION first;\n SECTION second;\n VI v[2];\n LE e;\n LWORD w;\n};\n",
}
FILE_CORE = ["struct", "nested_named", "inline_named", "anon_member", "enum", "typedef_struct", "typedef_anon_struct2", "typedef_array", "consts", "union_in_struct", "anon_enum", "flag", "anon_flag", "arrays", "ptrs"]


def legacy_sets():
    keys = [k for k in LEGACY if k != "user"]
    out = [(k,) for k in keys] + list(itertools.permutations(keys, 2))
    out.append(("consts", "tagged_typedef", "anon_typedef", "enum", "scalar_typedef", "user"))
    out.append(("scalar_typedef", "enum", "anon_typedef", "tagged_typedef", "user", "plain", "flag"))
    return out


def run_other(tier, mode, chunk) -> JobResult:
    res = JobResult()
    for combo in chunk:
        res.evaluations += 1
        res.states += 1
        res.transitions += 2
        res.traces += 1
        res.nontrivial += 1
        try:
            if mode == "legacy":
                iss = check("\n".join(LEGACY[c] for c in combo), legacy=True)
            else:
                iss = check_file([ITEMS[c] for c in combo])
        except Exception:  # noqa: BLE001
            import traceback

            iss = [("checker-crash", traceback.format_exc()[-400:])]
        for kind, d in iss:
            k = "checker:" + kind if kind == "checker-crash" else kind
            res.violations.append(Violation(k, f"{mode}|{kind}|{str(d)[:50]}", {mode: list(combo)}, f"{mode} definitions {list(combo)}: {kind}: {d}", {"items": "+".join(combo), "mode": mode}))
    res.samples.append({mode: [list(c) for c in chunk[:2]]})
    return res


def special(tier) -> JobResult:
    """Types added through the API (string aliases) and second-level aliases of array types."""
    res = JobResult()
    cases = {
        "add_type-string-alias": ("struct A { uint8 a; };", lambda cs: cs.add_type("myalias", "uint32")),
        "add_type-struct-alias": ("struct A { uint8 a; };", lambda cs: cs.add_type("A2", cs.A)),
        "add_type-multiword-string-alias": ("struct A { uint8 a; };", lambda cs: (cs.add_type("mw1", "unsigned int"), cs.add_type("mw2", "signed char"), cs.add_type("mw3", "unsigned long long"))),
        "add_type-string-alias-of-user-type": ("struct A { uint8 a; };", lambda cs: cs.add_type("A3", "A")),
        "alias-of-array-typedef": ("typedef uint8 arr4[4]; typedef arr4 arr4b; struct O { arr4b a; };", None),
        "alias-of-pointer-typedef": ("typedef uint8 *bptr; typedef bptr bptr2; struct O { bptr2 a; };", None),
        "pointer-to-anon-struct": ("struct H { struct { uint8 x; } *p; };", None),
    }
    # aliases by NAME that are registered before their target exists (the reference is resolved lazily)
    pres = {
        "add_type-forward-string-alias": ("struct Later { uint8 a; uint16 b; };\nstruct UsesFwd { Later l; };", lambda cs: cs.add_type("fwd", "Later")),
        "add_type-forward-string-alias-of-enum": ("enum LaterE : uint8 { LA = 1 };", lambda cs: cs.add_type("fwde", "LaterE")),
    }
    for name, (text, pre) in pres.items():
        res.evaluations += 1
        res.states += 1
        res.nontrivial += 1
        try:
            iss = check(text, pre=pre)
        except Exception as e:  # noqa: BLE001
            iss = [("load:raises", f"{impl.exc_sig(e)} {e!r}")]
        for kind, d in iss:
            res.violations.append(Violation(kind, f"special:{name}|{kind}", {"special": name}, f"{name} ({text!r}): {kind}: {d}", {"special": name}))
    for name, (text, extra) in cases.items():
        res.evaluations += 1
        res.states += 1
        res.nontrivial += 1
        try:
            iss = check(text, extra)
        except Exception as e:  # noqa: BLE001
            iss = [("load:raises", f"{impl.exc_sig(e)} {e!r}")]
        for kind, d in iss:
            res.violations.append(Violation(kind, f"special:{name}|{kind}", {"special": name}, f"{name} ({text!r}): {kind}: {d}", {"special": name}))
    res.samples.append({"special": list(cases)})
    return res


def jobs(tier):
    keys = list(ITEMS)
    sets = [(k,) for k in keys] + list(itertools.permutations(keys, 2))
    core = ["struct", "nested_named", "inline_named", "anon_member", "enum", "anon_enum", "typedef_scalar", "typedef_anon_struct2", "typedef_array", "consts", "flag_zero_composite", "ptrs"]
    if tier == "thorough":
        sets += list(itertools.permutations(keys, 3))
        sets += list(itertools.permutations(core[:8], 4))
    else:
        sets += list(itertools.permutations(core, 3))
    out = [("special", tier)]
    ls = legacy_sets()
    for i in range(0, len(ls), 20):
        out.append(("legacy", tier, ls[i : i + 20]))
    fc = FILE_CORE if tier == "quick" else list(ITEMS)
    fs = [(a,) for a in fc] + list(itertools.product(fc, repeat=2))  # incl. (a, a): two objects defining the same names
    for i in range(0, len(fs), 30):
        out.append(("file", tier, fs[i : i + 30]))
    for i in range(0, len(sets), 40):
        out.append(("sets", tier, sets[i : i + 40]))
    return out


def run(job) -> JobResult:
    if job[0] == "special":
        return special(job[1])
    if job[0] in ("legacy", "file"):
        return run_other(job[1], job[0], job[2])
    return run_sets(job[1], job[2])


def replay(case):
    if "special" in case:
        return [v for v in special("thorough").violations if v.case == case]
    for mode in ("legacy", "file"):
        if mode in case:
            return run_other("thorough", mode, [tuple(case[mode])]).violations
    return run_sets("thorough", [tuple(case["items"])]).violations


def meta(tier):
    return {
        "rule": "every single item, every ordered pair and every ordered triple over a core subset of 28 definition items (structs, unions, nested named / inline named / "
        "anonymous members, arrays of them, bit-fields, pointers incl. to self, enums, flags with zero/composite/mask members, aliases, anonymous enum, typedef of "
        "scalar / struct / several names / array / pointer / enum, constants of every literal kind, every built-in scalar as field type) is loaded and its "
        "stub generated; an AST-level checker verifies: valid Python, every user type / alias / constant declared exactly once under its name, nothing "
        "declared that the object does not provide, constant literals equal the constants, enum members, field names in order, every field "
        "hint denotes the field's actual type (identity for named types, same shape for arrays/pointers), inline classes only for "
        "non-global types; plus API-added aliases and aliases of array/pointer typedefs; definitions loaded through the legacy (regex) parser (singles, ordered pairs, two "
        "full sets); generate_file_stub on a module with one or two cstruct objects (every ordered pair of item sets incl. the same set twice) checked per object; "
        "non-trivial = sets of >=2 items",
        "bounds": {"items": len(ITEMS), "set_size": 3 if tier == "quick" else 4, "triples_over": 12 if tier == "quick" else len(ITEMS), "legacy_items": len(LEGACY), "file_items": len(FILE_CORE) if tier == "quick" else len(ITEMS)},
        "assumptions": ["names that are not Python identifiers cannot be declared and are outside the alphabet"],
    }
