"""./check <ID> [--tier quick|thorough] [--replay FILE]"""
from __future__ import annotations

import argparse
import importlib
import json
import os
import sys


def main(argv=None) -> int:
    ap = argparse.ArgumentParser()
    ap.add_argument("prop")
    ap.add_argument("--tier", default=os.environ.get("VERIF_TIER", "quick"), choices=["quick", "thorough"])
    ap.add_argument("--replay")
    args = ap.parse_args(argv)
    pid = args.prop.upper()
    mod = importlib.import_module(f"mcx.props.{pid.lower()}")
    if args.replay:
        with open(args.replay) as fh:
            doc = json.load(fh)
        vs = mod.replay(doc["case"])
        kinds = sorted({v.kind for v in vs})
        want = doc.get("kind")
        hit = [v for v in vs if want is None or v.kind == want]
        for v in vs[:10]:
            print(f"  {v.kind}: {v.detail[:500]}")
        print(f"REPLAY-RESULT property={pid} reproduced={bool(hit)} kinds={kinds}")
        return 1 if hit else 0
    from . import runner

    seed = int(os.environ.get("VERIF_SEED", "0") or 0)
    return runner.run_check(mod, args.tier, seed)


if __name__ == "__main__":
    sys.exit(main())
