"""./check <ID> [--tier quick|thorough] [--replay FILE]"""
from __future__ import annotations

import argparse
import importlib
import json
import os
import sys


def _tuplify(x):
    if isinstance(x, list):
        return tuple(_tuplify(i) for i in x)
    return x


def main(argv=None) -> int:
    ap = argparse.ArgumentParser()
    ap.add_argument("prop")
    ap.add_argument("--tier", default=os.environ.get("VERIF_TIER", "quick"), choices=["quick", "thorough"])
    ap.add_argument("--replay")
    args = ap.parse_args(argv)
    pid = args.prop.upper()
    mod = importlib.import_module(f"mcx.props.{pid.lower()}")
    if args.replay:
        with open(args.replay) as fh:
            doc = json.load(fh)
        vs = mod.replay(doc["case"]) if not doc["case"].get("job_crash") else []
        kinds = sorted({v.kind for v in vs})
        want = doc.get("kind")
        hit = [v for v in vs if want is None or v.kind == want]
        mode = "case"
        if not hit and doc.get("job") is not None:
            # history-dependent failure (state carried from earlier cases of the same job): replay the whole job
            mode = "job"
            from . import runner as _runner

            r = _runner._run_job((mod.__name__, _tuplify(doc["job"])))
            vs = r.violations
            kinds = sorted({v.kind for v in vs})
            norm = json.loads(json.dumps(doc["case"], default=str))
            hit = [v for v in vs if v.kind == want and json.loads(json.dumps(v.case, default=str)) == norm]
            if not hit:
                # which case of the job fails first depends on what ran before it in the same process: the same kind of failure in the
                # same cluster within this job counts as reproduced
                hit = [v for v in vs if v.kind == want and v.cluster == doc.get("cluster")]
        for v in (hit or vs)[:10]:
            print(f"  {v.kind}: {v.detail[:500]}")
        print(f"REPLAY-RESULT property={pid} reproduced={bool(hit)} mode={mode} kinds={kinds[:12]}")
        return 1 if hit else 0
    from . import runner

    seed = int(os.environ.get("VERIF_SEED", "0") or 0)
    return runner.run_check(mod, args.tier, seed)


if __name__ == "__main__":
    sys.exit(main())
