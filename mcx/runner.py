"""Runner: shards jobs over worker processes, aggregates coverage, clusters violations, confirms them by replay in
fresh processes, matches them against the (read-only) known-findings file and writes the evidence file."""
from __future__ import annotations

import hashlib
import json
import multiprocessing as mp
import os
import resource
import signal
import subprocess
import sys
import time
import traceback
from collections import Counter, OrderedDict
from dataclasses import dataclass, field

from . import evidence, findings

VERIF = os.path.dirname(os.path.dirname(os.path.abspath(__file__)))
NPROC = int(os.environ.get("VERIF_PROCS", "0")) or min(16, os.cpu_count() or 4)
JOB_TIMEOUT = int(os.environ.get("VERIF_JOB_TIMEOUT", "600"))
MAX_REPORT = 8  # VIOLATION lines / replay files per run (clusters beyond that are counted only)


@dataclass
class Violation:
    kind: str  # what failed (check kind + compared quantity / exception site)
    cluster: str  # clustering key (root-cause bucket)
    case: dict  # JSON-able, sufficient for --replay
    detail: str = ""
    features: dict = field(default_factory=dict)  # structural predicates for known-finding signatures
    job: object = None  # the job that produced it (set by the runner): unit of replay for history-dependent failures

    def to_json(self) -> dict:
        d = {"kind": self.kind, "cluster": self.cluster, "case": self.case, "detail": self.detail, "features": self.features}
        if self.job is not None:
            d["job"] = self.job
        return d


@dataclass
class JobResult:
    evaluations: int = 0  # cases generated / executions run
    transitions: int = 0  # library operations executed
    states: int = 0  # distinct canonical cases / states visited (hashed, job-local; jobs partition the space)
    nontrivial: int = 0  # distinct cases that exercised the feature the property is about
    traces: int = 0  # traces run on the real code and compared with the model
    violations: list = field(default_factory=list)
    samples: list = field(default_factory=list)
    extra: Counter = field(default_factory=Counter)
    outcomes: set = field(default_factory=set)
    capped: bool = False


class CaseTimeout(BaseException):
    pass


def _alarm(signum, frame):
    raise CaseTimeout()


class watchdog:
    """CPU-time watchdog, re-entrant (a hang is a violation, not a crash of the checker).

    Counts the process's CPU time (ITIMER_PROF), not wall-clock time: a runaway loop in the library burns CPU and is caught, while a
    machine that is merely busy (other checks running) cannot turn a slow case into a false "hang".
    Raises CaseTimeout (a BaseException, so that library code catching Exception cannot swallow it)."""

    def __init__(self, seconds: float):
        self.seconds = seconds
        self.prev = 0.0
        self.t0 = 0.0

    def __enter__(self):
        signal.signal(signal.SIGPROF, _alarm)
        self.prev = signal.getitimer(signal.ITIMER_PROF)[0]
        self.t0 = time.process_time()
        signal.setitimer(signal.ITIMER_PROF, self.seconds)
        return self

    def __exit__(self, *a):
        if self.prev > 0:
            signal.setitimer(signal.ITIMER_PROF, max(0.01, self.prev - (time.process_time() - self.t0)))
        else:
            signal.setitimer(signal.ITIMER_PROF, 0)
        return False


def _init_worker():
    mem = int(os.environ.get("VERIF_WORKER_MEM_GB", "6")) << 30
    try:
        resource.setrlimit(resource.RLIMIT_AS, (mem, mem))
    except Exception:
        pass
    sys.setrecursionlimit(10000)


def _run_job(args):
    modname, job = args
    mod = sys.modules.get(modname) or __import__(modname, fromlist=["x"])
    try:
        with watchdog(JOB_TIMEOUT):
            r = mod.run(job)
        if len(r.violations) > 400:
            r.extra["violations_not_transferred"] += len(r.violations) - 400
            del r.violations[400:]
        seen_clusters = set()
        for v in r.violations:
            if v.cluster not in seen_clusters:  # one copy of the job per cluster is enough
                seen_clusters.add(v.cluster)
                v.job = job
        return r
    except CaseTimeout:
        r = JobResult()
        r.extra["job_timeouts"] += 1
        r.violations.append(Violation("checker:job-timeout", "checker:job-timeout", {"job": repr(job)[:300]}, "job exceeded watchdog"))
        return r
    except MemoryError:
        r = JobResult()
        r.violations.append(Violation("checker:job-memory", "checker:job-memory", {"job": repr(job)[:300]}, "job exceeded memory limit"))
        return r
    except Exception as e:  # noqa: BLE001
        r = JobResult()
        where = _library_frame(e)
        if where:
            # an exception that escaped from library code at a place where the check did not expect one (it never happens on a tree where the
            # property holds, or the check would be broken there): reported as a violation, replayable through the job
            v = Violation(f"unexpected-exception:{type(e).__name__}", f"unexpected-exception|{type(e).__name__}@{where}", {"job_crash": True},
                          f"{type(e).__name__} escaped from {where}: {e!r}\n" + traceback.format_exc()[-900:], {"exception": type(e).__name__, "where": where})
            v.job = job
            r.violations.append(v)
        else:
            r.violations.append(Violation("checker:job-crash", "checker:job-crash", {"job": repr(job)[:300]}, traceback.format_exc()[-1500:]))
        return r


def _library_frame(e: BaseException) -> str:
    """Innermost traceback frame that lies in the library under test ('' if the exception never touched it)."""
    root = os.path.realpath(os.environ.get("VERIF_REPO", "/repo"))
    tb = e.__traceback__
    where = ""
    while tb is not None:
        fn = tb.tb_frame.f_code.co_filename
        if fn.startswith(root + os.sep) or fn.startswith("<compiled") or fn == "<string>":
            # "<string>": the structure methods (__init__/__eq__/__bool__/__hash__) the library generates with exec; no check executes source text
            where = f"{os.path.relpath(fn, root) if fn.startswith(root) else '<generated>' if fn == '<string>' else '<compiled>'}:{tb.tb_frame.f_code.co_name}"
        tb = tb.tb_next
    return where


def _replay_file(pid: str, v: Violation) -> str:
    h = hashlib.sha1(json.dumps([v.kind, v.case], sort_keys=True, default=str).encode()).hexdigest()[:12]
    d = os.environ.get("VERIF_REPLAY_DIR") or os.path.join(VERIF, "replays")
    os.makedirs(d, exist_ok=True)
    path = os.path.join(d, f"{pid}-{h}.json")
    with open(path, "w") as fh:
        json.dump({"property": pid, **v.to_json()}, fh, indent=1, default=str)
    return path


def confirm(pid: str, path: str) -> tuple[bool, str]:
    """Re-run a violating case twice, each in a fresh interpreter: it must reproduce identically."""
    outs = []
    for _ in range(2):
        p = subprocess.run(
            [sys.executable, "-m", "mcx.cli", pid, "--replay", path],
            cwd=VERIF, capture_output=True, text=True, timeout=600,
            env={**os.environ, "PYTHONHASHSEED": "0", "PYTHONDONTWRITEBYTECODE": "1"},
        )
        outs.append((p.returncode, [ln for ln in p.stdout.splitlines() if ln.startswith("REPLAY-RESULT")]))
    if outs[0] != outs[1]:
        return False, f"nondeterministic replay: {outs}"
    if outs[0][0] != 1:
        return False, f"replay did not reproduce (exit {outs[0][0]})"
    return True, ""


class PoolStalled(RuntimeError):
    pass


def _cpu_of(pid: int) -> float:
    try:
        with open(f"/proc/{pid}/stat") as fh:
            f = fh.read().rsplit(")", 1)[1].split()
        return (int(f[11]) + int(f[12])) / os.sysconf("SC_CLK_TCK")
    except Exception:  # noqa: BLE001
        return -1.0


def _watch(pool, it, njobs: int, period: float = 30.0, patience: int = 10):
    """Yield the pool's results; raise PoolStalled when results are outstanding and no worker has used any CPU time for patience*period
    seconds (the CPU-time watchdog inside a worker cannot see a worker that was killed or whose threads wait for each other)."""
    got, idle, last = 0, 0, {}
    while got < njobs:
        try:
            r = it.next(timeout=period)
        except mp.TimeoutError:
            now = {p.pid: _cpu_of(p.pid) for p in list(getattr(pool, "_pool", []))}
            busy = any(pid not in last or cpu - last[pid] > 0.2 for pid, cpu in now.items())
            last = now
            idle = 0 if busy else idle + 1
            if idle >= patience:
                raise PoolStalled(f"{njobs - got} of {njobs} jobs outstanding and no worker used CPU time for {idle * period:.0f}s")
            continue
        except StopIteration:
            return
        got += 1
        idle = 0
        yield r


def run_check(mod, tier: str, seed: int) -> int:
    pid = mod.ID
    t0 = time.time()
    global JOB_TIMEOUT
    if tier == "thorough" and not os.environ.get("VERIF_JOB_TIMEOUT"):
        JOB_TIMEOUT = 5400
    jobs = list(mod.jobs(tier))
    stride = int(os.environ.get("VERIF_JOB_STRIDE", "1"))  # development aid only; never set by registered commands
    if stride > 1:
        jobs = jobs[::stride]
    # the seed only rotates shard order and which explored cases are copied into the samples
    if jobs and seed:
        k = seed % len(jobs)
        jobs = jobs[k:] + jobs[:k]
    agg = JobResult()
    clusters: "OrderedDict[str, list]" = OrderedDict()
    nviol = 0
    kf = findings.load()
    known_hits: "OrderedDict[str, int]" = OrderedDict()
    modname = mod.__name__
    per_child = getattr(mod, "TASKS_PER_CHILD", 8)
    nproc = min(NPROC, max(1, len(jobs)))
    if nproc == 1 or os.environ.get("VERIF_INLINE"):
        results = map(_run_job, [(modname, j) for j in jobs])
        pool = None
    else:
        pool = mp.get_context("fork").Pool(nproc, initializer=_init_worker, maxtasksperchild=per_child)
        results = _watch(pool, pool.imap_unordered(_run_job, [(modname, j) for j in jobs], chunksize=1), len(jobs))
    stalled = False
    try:
        for r in results:
            agg.evaluations += r.evaluations
            agg.transitions += r.transitions
            agg.states += r.states
            agg.nontrivial += r.nontrivial
            agg.traces += r.traces
            agg.extra.update(r.extra)
            agg.capped = agg.capped or r.capped
            if len(agg.outcomes) < 5000:
                agg.outcomes.update(r.outcomes)
            for s in r.samples:
                if len(agg.samples) < 400:
                    agg.samples.append(s)
            for v in r.violations:
                nviol += 1
                f = findings.match(kf, pid, v)
                if f is not None:
                    known_hits[f["id"]] = known_hits.get(f["id"], 0) + 1
                    continue
                lst = clusters.setdefault(v.cluster, [])
                if len(lst) < 6:
                    lst.append(v)
    except PoolStalled as e:
        # a worker died without an answer (the pool never re-issues its job) or deadlocked: a failure of the checker, not of the library
        stalled = True
        clusters.setdefault("checker:pool-stalled", []).append(Violation("checker:pool-stalled", "checker:pool-stalled", {}, str(e)))
    finally:
        if pool is not None:
            if stalled:
                pool.terminate()
            else:
                pool.close()
            pool.join()

    # ---- triage against the known-findings file (read-only) ----
    unknown: list[Violation] = []
    for ckey, lst in clusters.items():
        lst.sort(key=lambda v: len(json.dumps(v.case, default=str)))
        unknown.append(lst[0])  # one (the smallest) representative per cluster

    try:
        outdir = os.environ.get("VERIF_OUT_DIR") or os.path.join(VERIF, "out")
        os.makedirs(outdir, exist_ok=True)
        with open(os.path.join(outdir, f"{pid}-clusters.json"), "w") as fh:
            json.dump({k: [v.to_json() for v in lst[:2]] for k, lst in clusters.items()}, fh, indent=1, default=str)
    except OSError:
        pass
    rc = 0
    lines = []
    for fid, n in known_hits.items():
        f = findings.by_id(kf, fid)
        lines.append(f"KNOWN-FINDING: property={pid} {fid}: {f['what']}")
    reported = 0
    checker_errors = []
    for v in unknown:
        if v.kind.startswith("checker:"):
            checker_errors.append(v)
            continue
        if reported >= MAX_REPORT:
            break
        path = _replay_file(pid, v)
        if os.environ.get("VERIF_NO_CONFIRM", "0") not in ("", "0"):
            ok, why = True, ""
        else:
            ok, why = confirm(pid, path)
        if not ok:
            checker_errors.append(Violation("checker:unconfirmed", v.cluster, v.case, why + " :: " + v.detail))
            continue
        reported += 1
        rc = 1
        lines.append(f"VIOLATION property={pid} replay={path}")
        lines.append(f"  kind={v.kind} cluster={v.cluster}")
        lines.append(f"  detail={v.detail[:600]}")
    for v in checker_errors:
        lines.append(f"CHECKER-ERROR property={pid} {v.kind}: {v.detail[-900:]} case={json.dumps(v.case, default=str)[:400]}")
        rc = max(rc, 3)

    wall = time.time() - t0
    meta = mod.meta(tier) if hasattr(mod, "meta") else {}
    samples = agg.samples
    if samples:
        k = seed % len(samples)
        samples = (samples[k:] + samples[:k])[:6]
    evidence.write(
        pid,
        tier=tier,
        seed=seed,
        level=getattr(mod, "LEVEL", "model_checking"),
        wall_s=wall,
        violations=sum(1 for v in unknown if not v.kind.startswith("checker:")),
        coverage={
            "states": agg.states,
            "transitions": agg.transitions,
            "traces_validated_against_impl": agg.traces if agg.traces else agg.evaluations,  # exploration is on the implementation itself
            "evaluations": agg.evaluations,
            "distinct_nontrivial": min(agg.nontrivial, agg.states),  # counted conservatively: never more than the distinct cases
            "rule": meta.get("rule", ""),
            "samples": samples or [{"note": "no samples recorded"}],
            "exhaustive": (not agg.capped) and rc in (0, 1),
            "bounds": meta.get("bounds", {}),
            "jobs": len(jobs),
            "distinct_outcomes": len(agg.outcomes),
            "counters": dict(sorted(agg.extra.items())),
            "violating_cases_total": nviol,
            "violation_clusters": {k: len(v) for k, v in list(clusters.items())[:50]},
            "known_findings_hit": dict(known_hits),
            "explanation": meta.get("explanation", ""),
        },
        assumptions=meta.get("assumptions", []),
    )
    for ln in lines:
        print(ln)
    print(
        f"[{pid} {tier}] jobs={len(jobs)} evaluations={agg.evaluations} states={agg.states} transitions={agg.transitions} "
        f"nontrivial={agg.nontrivial} violating_cases={nviol} clusters={len(clusters)} known={sum(known_hits.values())} "
        f"wall={wall:.1f}s exit={rc}"
    )
    return rc
