"""Writes /verif/evidence/<ID>.json (schema: /root/.vp/EVIDENCE.schema.json)."""
from __future__ import annotations

import json
import os

DIR = os.environ.get("VERIF_EVIDENCE_DIR") or os.path.join(os.path.dirname(os.path.dirname(os.path.abspath(__file__))), "evidence")


def _jsonable(x):
    if isinstance(x, dict):
        return {str(k): _jsonable(v) for k, v in x.items()}
    if isinstance(x, (list, tuple, set)):
        return [_jsonable(v) for v in x]
    if isinstance(x, bytes):
        return x.hex()
    if isinstance(x, float) and (x != x or x in (float("inf"), float("-inf"))):
        return repr(x)
    if isinstance(x, (str, int, float, bool)) or x is None:
        return x
    return repr(x)


def write(pid, *, tier, seed, level, wall_s, violations, coverage, assumptions):
    os.makedirs(DIR, exist_ok=True)
    cov = _jsonable(coverage)
    # schema minimums: a run that explored nothing must not look like evidence
    doc = {
        "property_id": pid,
        "tier": tier,
        "seed": int(seed),
        "level": level,
        "coverage": cov,
        "assumptions": list(assumptions),
        "wall_s": round(float(wall_s), 3),
        "violations": int(violations),
    }
    path = os.path.join(DIR, f"{pid}.json")
    tmp = path + ".tmp"
    with open(tmp, "w") as fh:
        json.dump(doc, fh, indent=1)
    os.replace(tmp, path)
    return path
