"""Definition enumerators (DESIGN 4): product spaces D(alphabet, k) and the long-run family R."""
from __future__ import annotations

import itertools

from .alphabet import Atom, atoms_core, atoms_eof, atoms_wide


def _ok(seq) -> bool:
    return sum(1 for a in seq if a.name.endswith("(anon)")) <= 1


def product_defs(atoms: list[Atom], k: int, kmin: int = 1):
    """All atom sequences of length kmin..k (simplest first)."""
    for m in range(kmin, k + 1):
        for seq in itertools.product(atoms, repeat=m):
            if _ok(seq):
                yield seq


def eof_defs(atoms: list[Atom], k: int):
    """Sequences of length 0..k followed by one [EOF] array in last position."""
    for m in range(0, k + 1):
        for seq in itertools.product(atoms, repeat=m):
            if not _ok(seq):
                continue
            for e in atoms_eof():
                yield (*seq, e)


def long_run(core: list[Atom] | None = None, nmin: int = 5, nmax: int = 12, triples: bool = True):
    """Linear family of long definitions: each atom repeated n times; ordered pairs / triples cycled to nmax fields."""
    core = core or atoms_core()
    core = [a for a in core if not a.name.endswith("(anon)")]
    for a in core:
        for n in range(nmin, nmax + 1):
            yield (a,) * n
    for a, b in itertools.permutations(core, 2):
        yield tuple((a, b)[i % 2] for i in range(nmax))
    if triples:
        for tri in itertools.permutations(core, 3):
            yield tuple(tri[i % 3] for i in range(nmax))


def bit_pairs_with_tail(wide: list[Atom]):
    """All ordered pairs of bit-field atoms (any storage types, incl. enum/char storage) followed by one ordinary field: the compiled
    reader's unit tracking is only observable through the field *behind* the bit-fields."""
    bits = [a for a in wide if a.bits]
    tails = [a for a in wide if a.name in ("uint32", "uint16", "char", "in_t", "uint24", "char[n0]")]
    u8 = [a for a in wide if a.name == "uint8"][0]
    for a, b in itertools.product(bits, repeat=2):
        for t in tails:
            yield (a, b, t)
            yield (u8, a, b, t)  # the other parity of the unit's offset


def bit_pairs_split(wide: list[Atom]):
    """Two bit-fields separated by a member that occupies no bytes (void, zero-length array), followed by an ordinary field: the zero-size member
    still ends the storage unit - in the layout and in both readers."""
    bits = [a for a in wide if a.bits]
    zeros = [a for a in wide if a.name in ("void", "uint32[0]")]
    tail = [a for a in wide if a.name == "uint16"][0]
    for a, b in itertools.product(bits, repeat=2):
        for z in zeros:
            yield (a, z, b, tail)


def sliced_blocks(wide: list[Atom]):
    """Blocks without any struct-packed member (char, wchar, 24/48-bit integers are byte-sliced by the compiled reader) combined with zero-length
    arrays and void: the generated block has no unpack line."""
    pool = [a for a in wide if a.name in ("char", "wchar", "uint24", "int48", "char[2]", "uint32[0]", "void", "uint24[2]")]
    for k in (1, 2, 3):
        for seq in itertools.product(pool, repeat=k):
            yield ("!nolead", *names(seq))


def zero_block_start(wide: list[Atom]):
    """A zero-length array (element alignment > 1) where a block of plain fields starts - behind a bit-field, a nested struct or a dynamic
    member - followed by plain fields: the block must still be positioned."""
    pre = [a for a in wide if a.name in ("uint8:4", "uint16:4", "in_t", "char[n0]", "in_t[2]", "uint8")]
    zero = [a for a in wide if a.name == "uint32[0]"][0]
    post = [a for a in wide if a.name in ("uint8", "uint16", "uint64", "char")]
    for a in pre:
        for b in post:
            yield (a, zero, b)
            if "n0" not in a.name:
                yield ("!nolead", a.name, zero.name, b.name)
            for c in post[:2]:
                yield (a, zero, b, c)


def nolead_defs(atoms: list[Atom], k: int):
    """Definitions *without* the leading uint8 n0 (the first field is the atom itself): first-field behaviour."""
    for seq in product_defs([a for a in atoms if "n0" not in a.name], k):
        yield ("!nolead", *names(seq))


def names(seq) -> tuple[str, ...]:
    return tuple(a.name for a in seq)


def chunks(it, n: int):
    buf = []
    for x in it:
        buf.append(x)
        if len(buf) >= n:
            yield buf
            buf = []
    if buf:
        yield buf


def space(tier: str, which: str):
    """Named definition spaces used by several properties. Yields tuples of atom names."""
    W, C = atoms_wide(), atoms_core()
    seen = set()

    def emit(gen):
        for seq in gen:
            nm = seq if (seq and isinstance(seq[0], str)) else names(seq)
            if nm not in seen:
                seen.add(nm)
                yield nm

    if which == "main":  # C01 / C02 / C03
        if tier == "quick":
            # depth 3 over the core classes minus four atoms whose class has another representative in the product
            # (uint64~uint32, float~uint32 (both struct-packed), uint8:4~uint8:3, uint16:12~uint16:4); thorough keeps all
            drop = {"uint64", "float", "uint8:4", "uint16:12"}
            Cq = [a for a in C if a.name not in drop]
            yield from emit(product_defs(W, 2))
            yield from emit(product_defs(Cq, 3, 3))
            yield from emit(eof_defs(C, 1))
            yield from emit(long_run(C, 11, 12, triples=False))
            yield from emit(bit_pairs_with_tail(W))
            yield from emit(bit_pairs_split(W))
            yield from emit(sliced_blocks(W))
            yield from emit(zero_block_start(W))
            yield from emit(nolead_defs(W, 1))
            yield from emit(nolead_defs(C, 2))
        else:
            yield from emit(bit_pairs_with_tail(W))
            yield from emit(bit_pairs_split(W))
            yield from emit(sliced_blocks(W))
            yield from emit(zero_block_start(W))
            yield from emit(nolead_defs(W, 2))
            yield from emit(nolead_defs(C, 3))
            yield from emit(product_defs(W, 2))
            yield from emit(product_defs(C, 3, 3))
            yield from emit(eof_defs(W, 1))
            yield from emit(eof_defs(C, 2))
            yield from emit(long_run(C, 5, 12, triples=True))
            yield from emit(product_defs(W, 3, 3))
            yield from emit(product_defs(C, 4, 4))
    elif which == "medium":  # C08
        if tier == "quick":
            yield from emit(product_defs(W, 2))
            yield from emit(eof_defs(C, 1))
            yield from emit(nolead_defs(W, 1))
            yield from emit(nolead_defs(C, 2))
        else:
            yield from emit(nolead_defs(W, 2))
            yield from emit(product_defs(W, 2))
            yield from emit(product_defs(C, 3, 3))
            yield from emit(eof_defs(C, 1))
            yield from emit(long_run(C, 8, 12, triples=False))
    elif which == "small":  # C08 / C09 / C19
        if tier == "quick":
            yield from emit(product_defs(W, 1))
            yield from emit(product_defs(C, 2, 2))
            yield from emit(eof_defs(C, 0))
        else:
            yield from emit(product_defs(W, 2))
            yield from emit(product_defs(C, 3, 3))
            yield from emit(eof_defs(C, 1))
    else:
        raise KeyError(which)
