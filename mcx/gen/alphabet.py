"""Field-atom alphabets (DESIGN 4).  An atom is one structure member: (name, type descriptor, bit width, class)."""
from __future__ import annotations

from dataclasses import dataclass
from typing import Any

from ..refmodel.types import (
    CHAR,
    EOF,
    FLOATS,
    ILEB,
    INTS,
    ULEB,
    VOID,
    WCHAR,
    TArr,
    TEnum,
    TField,
    TPtr,
    TStruct,
)


@dataclass(frozen=True)
class Atom:
    name: str
    type: Any
    bits: int | None
    klass: str  # behaviour class used for clustering / known-finding signatures

    def __repr__(self) -> str:
        return self.name


# --- shared named types ----------------------------------------------------------------------------------------
E8 = TEnum("E8", INTS["uint8"], (("A", 1), ("B", 2)))
E16s = TEnum("E16s", INTS["int16"], (("A", 1), ("B", -2)))
F32 = TEnum("F32", INTS["uint32"], (("X", 1), ("Y", 4)), flag=True)
F16 = TEnum("F16", INTS["uint16"], (("P", 1), ("Q", 2), ("R", 8)), flag=True)
E24 = TEnum("E24", INTS["uint24"], (("A", 1), ("B", 0x010203)))  # enum over a byte-sliced (non struct-packed) integer
IN = TStruct("in_t", (TField("p", INTS["uint8"]), TField("q", INTS["uint32"])))  # internal padding when aligned
IN2 = TStruct("in2_t", (TField("p", INTS["uint16"]), TField("q", INTS["uint8"])))  # tail padding when aligned
ININT = TStruct("inint_t", (TField("p", INTS["uint8"]), TField("q", INTS["int16"])))  # all-integer (null-term capable)
IND = TStruct("ind_t", (TField("n", INTS["uint8"]), TField("d", TArr(CHAR, "n"))))  # dynamic
UN = TStruct("un_t", (TField("w", INTS["uint16"]), TField("b", TArr(INTS["uint8"], 3))), union=True)
ANONH = TStruct("__anon_h", (TField("hv", INTS["uint8"]), TField("hw", INTS["uint16"])))
UNH = TStruct("unh_t", (TField(None, ANONH), TField("raw", INTS["uint32"])), union=True)  # anonymous struct (hole when aligned) ties with a regular member
ANON = TStruct("__anon_a", (TField("ax", INTS["uint8"]), TField("ay", INTS["uint16"])))
NEST2 = TStruct("nest2_t", (TField("h", INTS["uint8"]), TField("i", IN)))
BFS = TStruct("bfs_t", (TField("a", INTS["uint8"], 4), TField("b", INTS["uint8"], 4), TField("c", INTS["uint16"])))  # bit-field unit + gap when aligned
UNS = TStruct("uns_t", (TField("s", IN), TField("w", INTS["uint8"])), union=True)  # the written member is a struct with internal padding
UNB = TStruct("unb_t", (TField("s", BFS), TField("r", INTS["uint8"])), union=True)  # ... with a bit-field unit

NAMED = {t.name: t for t in (E8, E16s, F32, F16, E24, IN, IN2, ININT, IND, UN, UNH, NEST2, BFS, UNS, UNB)}


def _klass(t, bits) -> str:
    from ..refmodel import types as T

    if bits:
        st = t.base if isinstance(t, TEnum) else t
        return f"bits:{st.name}"
    if isinstance(t, T.TInt):
        return "pint" if t.size in (1, 2, 4, 8) else "Int"
    if isinstance(t, T.TFloat):
        return "float"
    if isinstance(t, T.TChar):
        return "char"
    if isinstance(t, T.TWchar):
        return "wchar"
    if isinstance(t, T.TLeb):
        return "leb"
    if isinstance(t, T.TVoid):
        return "void"
    if isinstance(t, TEnum):
        return "flag" if t.flag else "enum"
    if isinstance(t, TPtr):
        return "ptr"
    if isinstance(t, TStruct):
        if t.union:
            return "union"
        if t.name.startswith("__anon"):
            return "anon"
        from ..refmodel.types import Cfg, sizeof

        return "dynstruct" if sizeof(t, Cfg()) is None else "struct"
    if isinstance(t, TArr):
        form = "[n]" if isinstance(t.count, int) else ("[]" if t.count is None else ("[EOF]" if t.count == EOF else "[expr]"))
        return _klass(t.elem, None) + form
    raise TypeError(t)


def _short(t) -> str:
    if isinstance(t, TPtr):
        return _short(t.target) + "*"
    if isinstance(t, TArr):
        c = "" if t.count is None else str(t.count)
        return f"{_short(t.elem)}[{c}]"
    return t.name


def atom(t, bits=None, anon=False) -> Atom:
    name = _short(t) + (f":{bits}" if bits else "") + ("(anon)" if anon else "")
    return Atom(name, t, bits, _klass(t, bits))


ARRAY_ELEMS_WIDE = (INTS["uint8"], INTS["int16"], INTS["uint24"], INTS["uint32"], CHAR, WCHAR, E16s, IN, FLOATS["float"], ULEB)


def atoms_wide() -> list[Atom]:
    A: list[Atom] = []
    for n in INTS:
        A.append(atom(INTS[n]))
    for n in FLOATS:
        A.append(atom(FLOATS[n]))
    A += [atom(x) for x in (CHAR, WCHAR, ULEB, ILEB, VOID, E8, E16s, F32, IN, IN2, IND, UN, UNH, NEST2, UNS, UNB)]
    A.append(atom(ANON, anon=True))
    A += [atom(TPtr(INTS["uint8"])), atom(TPtr(IN)), atom(TPtr(CHAR)), atom(TPtr(TPtr(INTS["uint16"])))]
    for e in ARRAY_ELEMS_WIDE:
        A.append(atom(TArr(e, 2)))
        A.append(atom(TArr(e, "n0")))
        if not isinstance(e, type(FLOATS["float"])) and e is not IN:
            A.append(atom(TArr(e, None)))
    A.append(atom(TArr(ININT, None)))
    A.append(atom(TArr(TArr(INTS["uint16"], 3), 2)))
    A.append(atom(TArr(TArr(CHAR, 2), 2)))
    A.append(atom(TArr(INTS["uint8"], "n0*2")))
    A.append(atom(TArr(INTS["uint16"], "n0-2")))
    A.append(atom(TArr(TPtr(INTS["uint8"]), 2)))
    A.append(atom(TArr(INTS["uint32"], 0)))  # zero-length array of a struct-packed type
    A += [atom(E24), atom(TArr(E24, 2)), atom(TArr(E24, "n0"))]
    for st, widths in (
        (INTS["uint8"], (1, 3, 4, 8)),
        (INTS["uint16"], (4, 12, 16)),
        (INTS["uint32"], (1, 31)),
        (INTS["int16"], (5,)),
        (INTS["int8"], (4,)),
        (E8, (4,)),
        (F16, (6,)),
        (INTS["uint24"], (12,)),
        (INTS["uint64"], (33,)),
        (CHAR, (4,)),
    ):
        for w in widths:
            A.append(atom(st, w))
    return A


def atoms_core() -> list[Atom]:
    """One representative per behaviour class as seen by layout / reader / writer / compiler."""
    A = [
        atom(INTS["uint8"]),
        atom(INTS["uint32"]),
        atom(INTS["int16"]),
        atom(INTS["uint24"]),
        atom(INTS["uint64"]),
        atom(FLOATS["float"]),
        atom(CHAR),
        atom(WCHAR),
        atom(ULEB),
        atom(E16s),
        atom(IN),
        atom(IND),
        atom(UN),
        atom(TPtr(INTS["uint8"])),
        atom(TArr(INTS["uint16"], 2)),
        atom(TArr(INTS["uint24"], 2)),
        atom(TArr(CHAR, 2)),
        atom(TArr(CHAR, "n0")),
        atom(TArr(CHAR, None)),
        atom(TArr(IN, 2)),
        atom(TArr(TArr(INTS["uint16"], 3), 2)),
        atom(INTS["uint8"], 3),
        atom(INTS["uint8"], 4),
        atom(INTS["uint16"], 4),
        atom(INTS["uint16"], 12),
        atom(INTS["uint32"], 1),
    ]
    return A


def atoms_eof() -> list[Atom]:
    """[EOF] forms (last position only)."""
    return [atom(TArr(e, EOF)) for e in (INTS["uint8"], INTS["uint16"], INTS["uint24"], CHAR, WCHAR, E16s, IN, IN2)]  # IN2: tail padding when aligned


_REG: dict[str, Atom] = {}


def registry() -> dict[str, Atom]:
    if not _REG:
        for a in atoms_wide() + atoms_core() + atoms_eof():
            _REG.setdefault(a.name, a)
    return _REG


def register(a: Atom) -> Atom:
    registry().setdefault(a.name, a)
    return a


def by_name(name: str) -> Atom:
    return registry()[name]


def mk_struct(atoms_seq, name: str = "S", lead_n0: bool = True) -> TStruct:
    fs = []
    if lead_n0:
        fs.append(TField("n0", INTS["uint8"]))
    for i, a in enumerate(atoms_seq):
        if a.name.endswith("(anon)"):
            fs.append(TField(None, a.type))
        else:
            fs.append(TField(f"f{i}", a.type, a.bits))
    return TStruct(name, tuple(fs))
