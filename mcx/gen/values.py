"""Value alphabets and deviation-bounded value assignments (DESIGN 4, "Inputs")."""
from __future__ import annotations

import itertools
import struct as pystruct

from ..refmodel.codec import RawUnion, eval_count
from ..refmodel.types import (
    EOF,
    Cfg,
    TArr,
    TChar,
    TEnum,
    TFloat,
    TInt,
    TLeb,
    TPtr,
    TStruct,
    TVoid,
    TWchar,
    layout,
    sizeof,
)


def int_alphabet(size: int, signed: bool) -> list[int]:
    bits = size * 8
    pat = int.from_bytes(bytes(range(1, size + 1)), "big")  # 0x010203..: every byte distinct, shows byte order
    if signed:
        lo, hi = -(1 << (bits - 1)), (1 << (bits - 1)) - 1
        vals = [pat, 0, -1, hi, lo, 1, -pat, lo + 1]
    else:
        hi = (1 << bits) - 1
        vals = [pat, 0, hi, 1 << (bits - 1), 1, hi - 1, (1 << (bits - 1)) - 1]
    out = []
    for v in vals:
        if v not in out:
            out.append(v)
    return out


def float_alphabet(t: TFloat) -> list[float]:
    base = {"e": [1.5, 0.0, -2.0, 65504.0, 6.103515625e-05], "f": [1.5, 0.0, -2.0, 3.4028234663852886e38, 1.401298464324817e-45],
            "d": [1.5, 0.0, -2.0, 1.7976931348623157e308, 5e-324]}[t.fmt]
    return base + [-0.0, float("inf")]


def scalar_alphabet(t, cfg: Cfg) -> list:
    if isinstance(t, TInt):
        return int_alphabet(t.size, t.signed)
    if isinstance(t, TFloat):
        return float_alphabet(t)
    if isinstance(t, TChar):
        return [b"A", b"\x00", b"\xff", b"\x80", b"z"]
    if isinstance(t, TWchar):
        return ["W", "\x00", "€", "￿", "Ā"]
    if isinstance(t, TLeb):
        if t.signed:
            return [300, 0, -1, 63, 64, -64, -65, 2**35 + 7, -(2**40)]
        return [300, 0, 127, 128, 16383, 16384, 2**35 + 7]
    if isinstance(t, TVoid):
        return [None]
    if isinstance(t, TEnum):
        named = [v for _, v in t.members]
        rest = [v for v in int_alphabet(t.base.size, t.base.signed) if v not in named]
        if t.flag:
            combo = 0
            for v in named:
                combo |= v
            if t.base.signed:
                rest = [v for v in rest if v >= 0]  # negative flag values: C12's business (known finding X)
            return named[:1] + [combo] + named[1:] + rest
        return named[:1] + rest[:1] + named[1:] + rest[1:]
    if isinstance(t, TPtr):
        # small (in-range) addresses first so that dereferencing has a target; then the boundary values
        return [9, 0, 3] + [v for v in int_alphabet(cfg.ptr.size, False) if v not in (9, 0, 3)]
    raise TypeError(t)


def nonzero(t, v) -> bool:
    from ..refmodel.codec import is_zero

    return not is_zero(v)


def value_alphabet(t, cfg: Cfg, ctx: dict, k_limit: int = 8) -> list:
    """Alphabet of plain values for one member of type t, first element = baseline."""
    if isinstance(t, TArr):
        e = t.elem
        if t.count is None:
            lens = [2, 0, 1, 3]
        elif t.count == EOF:
            lens = [2, 0, 1, 3]
        elif isinstance(t.count, int):
            lens = [max(0, t.count)]
        else:
            lens = [max(0, eval_count(t.count, ctx, cfg))]
        ea = value_alphabet(e, cfg, ctx)
        if t.count is None:
            ea = [x for x in ea if nonzero(e, x)]
            if isinstance(e, TWchar):
                ea = [x for x in ea if x != "\x00"]
        out = []
        for n in lens:
            for rot in range(min(len(ea), 3) if n else 1):
                items = [ea[(rot + i) % len(ea)] for i in range(n)]
                if isinstance(e, TChar):
                    out.append(b"".join(items))
                elif isinstance(e, TWchar):
                    out.append("".join(items))
                else:
                    out.append(items)
        if isinstance(e, TWchar):
            # a non-BMP character: one code point, two UTF-16 code units (a valid surrogate pair)
            extra = []
            for n in lens:
                if n >= 2:
                    extra.append("\U0001F600" + "W" * (n - 2))
                    # a 00 00 byte pair that straddles two code units (little endian: "W\u0100", big endian: "\u0100W")
                    extra.append("W\u0100" + "W" * (n - 2))
                    extra.append("\u0100W" + "W" * (n - 2))
            out[1:1] = extra  # right behind the baseline, so that deviation-bounded enumerations with a small limit reach them
        return out
    if isinstance(t, TStruct):
        if t.union:
            sz = sizeof(t, cfg) or 0
            return [RawUnion(bytes((i * 29 + 7) % 256 for i in range(sz))), RawUnion(bytes(sz)), RawUnion(b"\xff" * sz)]
        return [a for a, _ in struct_assignments(t, cfg, dev=1, limit=k_limit)]
    return scalar_alphabet(t, cfg)


def bits_alphabet(width: int) -> list[int]:
    vals = [(0b1010101010101010101010101010101010101010101010101010101010101010 >> 1) & ((1 << width) - 1), 0, (1 << width) - 1, 1]
    if width > 1:
        vals.append(1 << (width - 1))
    out = []
    for v in vals:
        if v not in out:
            out.append(v)
    return out


def _field_alpha(f, cfg, ctx):
    if f.name == "n0":
        return [2, 0, 1, 3]
    if f.bits:
        return bits_alphabet(f.bits)
    return value_alphabet(f.type, cfg, ctx)


def _build(st: TStruct, cfg: Cfg, choice: dict):
    """Build an assignment in field order; choice[i] = index into field i's alphabet (default 0).

    Returns (values dict, sizes of the alphabets actually used)."""
    vals: dict = {}
    sizes = []
    for i, f in enumerate(st.fields):
        alpha = _field_alpha(f, cfg, vals)
        sizes.append(len(alpha))
        v = alpha[choice.get(i, 0) % len(alpha)]
        if f.name is None and isinstance(v, dict):
            vals.update(v)
        elif f.name is None:
            vals[("anon", f.type.name)] = v
        else:
            vals[f.name] = v
    return vals, sizes


def struct_assignments(st: TStruct, cfg: Cfg, dev: int = 1, limit: int | None = None, patterns: bool = True):
    """All assignments in which at most `dev` fields deviate from the baseline (+ all-k patterns).

    Yields (values, label).  Deterministic, simplest (baseline) first."""
    base, sizes = _build(st, cfg, {})
    n = len(st.fields)
    count = 0
    yield base, "base"
    count += 1
    seen = {repr(base)}
    for d in range(1, dev + 1):
        for idxs in itertools.combinations(range(n), d):
            # alphabet sizes may depend on earlier choices (n0); use the baseline sizes as the enumeration range
            ranges = [range(1, max(2, sizes[i])) for i in idxs]
            for combo in itertools.product(*ranges):
                ch = dict(zip(idxs, combo))
                vals, szs = _build(st, cfg, ch)
                if any(c >= s for c, s in zip(combo, (szs[i] for i in idxs))):
                    continue
                r = repr(vals)
                if r in seen:
                    continue
                seen.add(r)
                yield vals, "dev:" + ",".join(f"{i}={c}" for i, c in ch.items())
                count += 1
                if limit and count >= limit:
                    return
    if patterns:
        for k in (1, 2, 3):
            vals, _ = _build(st, cfg, {i: k for i in range(n)})
            r = repr(vals)
            if r not in seen:
                seen.add(r)
                yield vals, f"all:{k}"
                count += 1
                if limit and count >= limit:
                    return


def raw_patterns(n: int = 96):
    """Raw byte patterns ('values obtained by parsing arbitrary bytes')."""
    yield bytes((i % 250) + 1 for i in range(n))  # counter, no zeros
    yield bytes([2]) + bytes([0xFF]) * (n - 1)
    yield bytes([1]) + bytes((0x80 | (i * 7) % 128) for i in range(n - 1))
    yield bytes([3]) + bytes((i * 37 + 11) % 256 for i in range(n - 1))
    yield bytes([0]) + bytes(n - 1)
