#!/bin/bash
# full pass: every seeded change x its own check + related checks
declare -A REL=( [C01]="C01 C02 C06" [C02]="C02 C11 C08" [C03]="C03 C06 C18" [C04]="C04 C01" [C05]="C05 C14" [C06]="C06 C03 C02" [C07]="C07 C03" [C08]="C08 C03" [C09]="C09 C16" [C10]="C10 C07" [C11]="C11 C02" [C12]="C12" [C13]="C13 C07" [C14]="C14 C17 C05" [C15]="C15" [C16]="C16 C09" [C17]="C17 C14" [C18]="C18 C03" [C19]="C19" [C20]="C20 C13" )
for p in C01 C02 C03 C04 C05 C06 C07 C08 C09 C10 C11 C12 C13 C14 C15 C16 C17 C18 C19 C20; do
  for m in 1 2 3; do
    [ -d /tmp/seed/$p.out/mut$m ] || continue
    python3 /verif/tools/seed_eval.py /tmp/seed/$p.out/mut$m $p-mut$m $p ${REL[$p]} 2>&1 | cut -c1-600
  done
done
