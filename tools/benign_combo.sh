#!/bin/bash
# tools/benign_combo.sh <name> <refactor> ... : apply several behaviour-preserving refactors (different areas) TOGETHER to a scratch worktree and run
# every check once against it; all must stay silent.  Result: /verif/seeded/benign/COMBO-<name>.json
name=$1; shift
wt=/tmp/wt/combo-$name; ev=$wt.ev
git -C /repo worktree remove --force $wt >/dev/null 2>&1
git -C /repo worktree add -q --detach $wt HEAD
applied=""
for b in "$@"; do
  if git -C $wt apply /verif/seeded/benign/$b/patch.diff 2>/dev/null; then applied="$applied $b"; else echo "skip $b (does not apply on top)"; fi
done
suite=$(cd $wt && /venv/bin/python -m pytest -q -p no:cacheprovider --timeout=120 -x 2>&1 | tail -1)
echo "combo $name:$applied | suite: $suite"
mkdir -p $ev; res=""
for id in C01 C02 C03 C04 C05 C06 C07 C08 C09 C10 C11 C12 C13 C14 C15 C16 C17 C18 C19 C20; do
  out=$(VERIF_REPO=$wt VERIF_EVIDENCE_DIR=$ev VERIF_REPLAY_DIR=$ev VERIF_OUT_DIR=$ev VERIF_NO_CONFIRM=1 /verif/check $id --tier quick 2>&1); rc=$?
  echo "  $id rc=$rc $(echo "$out" | grep -c '^VIOLATION') violations"; [ $rc -ne 0 ] && echo "$out" | grep -E "kind=|detail=" | head -4 | cut -c1-300
  res="$res\"$id\": $rc, "
done
echo "{\"combo\": \"$name\", \"refactors\": \"$applied\", \"repo_head\": \"$(git -C /repo rev-parse --short HEAD)\", \"suite\": \"$suite\", \"checks\": {${res%, }}}" > /verif/seeded/benign/COMBO-$name.json
git -C /repo worktree remove --force $wt; rm -rf $ev
