#!/usr/bin/env python3
"""tools/gen_seed_tasks.py <wave-dir> [IDs...] - prepare a wave of independent "seeded change" tasks for fresh sub-agents.

For every property: a scratch git worktree of /repo HEAD at <wave-dir>/<ID> and a task file <wave-dir>/<ID>.out/TASK.md that contains ONLY the
property text (from properties.jsonl), the files it is anchored in, and - so that waves do not repeat each other - the file and first changed lines of the
changes already collected under /verif/seeded/<ID>-*/ .  Nothing about the checks is given to the agents."""
import json
import os
import subprocess
import sys

VERIF = os.path.dirname(os.path.dirname(os.path.abspath(__file__)))


def taken(pid):
    out = []
    sd = os.path.join(VERIF, "seeded")
    for d in sorted(os.listdir(sd)):
        if not d.startswith(pid + "-"):
            continue
        pf = os.path.join(sd, d, "patch.diff")
        if not os.path.exists(pf):
            continue
        cur, lines = None, []
        for ln in open(pf):
            if ln.startswith("diff --git"):
                if cur and lines:
                    out.append((cur, lines[:3]))
                cur, lines = ln.split(" b/")[-1].strip(), []
            elif (ln.startswith("+") or ln.startswith("-")) and not ln.startswith(("+++", "---")) and ln[1:].strip():
                lines.append(ln.rstrip()[:90])
        if cur and lines:
            out.append((cur, lines[:3]))
    return out


def main():
    wave = sys.argv[1]
    ids = sys.argv[2:]
    props = [json.loads(l) for l in open(os.path.join(VERIF, "properties.jsonl"))]
    os.makedirs(wave, exist_ok=True)
    for p in props:
        pid = p["id"]
        if ids and pid not in ids:
            continue
        wt, od = f"{wave}/{pid}", f"{wave}/{pid}.out"
        subprocess.run(f"git -C /repo worktree remove --force {wt}", shell=True, capture_output=True)
        subprocess.run(f"git -C /repo worktree add -q --detach {wt} HEAD", shell=True, check=True)
        os.makedirs(od, exist_ok=True)
        tk = "\n".join(f"  - {f}: " + " / ".join(ls) for f, ls in taken(pid)) or "  (none)"
        text = f"""You are helping to test a verification harness by producing realistic regressions ("seeded defects") for the pure-Python library dissect.cstruct (parses C-like struct definitions, reads/writes binary data, has an expression evaluator and a source-generating compiled reader).

You have your own scratch git worktree of the repository at {wt} . Work ONLY inside {wt} and {od} . Do NOT modify /repo, and do NOT read or list anything under /verif (the harness must stay unknown to you so that your changes are independent of it). The Python interpreter with all dependencies is /venv/bin/python . There is no network.

The semantic property in question:

Property {pid}: {p['title']}

Statement: {p['statement']}

Quantified over: {p['quantifier']['text']}

Why the existing tests cannot settle it: {p['why_tests_cant']}

Code the property is anchored in: {', '.join(p['anchors']['files'])}

Other people have already produced changes for this property; to be useful yours must use DIFFERENT mechanisms and code locations. Already taken (files and the first changed lines of each):
{tk}

Also prefer changes in places that are only reached through an unusual combination (e.g. a rarely used type inside a rarely used container, a second code path that duplicates a first one, state that survives between two operations, behaviour that only differs for big-endian / aligned / compiled / interpreted configurations). Stay strictly INSIDE the property's statement and quantifier: a change whose only effect lies outside them (e.g. inputs the statement explicitly excludes) is not useful.

TASK. Produce 3 *independent* small source changes to the library (files under dissect/cstruct/ in your worktree), each as its own patch against the worktree's clean HEAD, such that each change on its own:
  (a) BREAKS the property above (some input / definition / configuration / history inside the property's quantifier now violates the statement), and
  (b) the package still imports and the repository's existing test-suite still passes completely: `cd {wt} && /venv/bin/python -m pytest -q -p no:cacheprovider --timeout=120` must still report all 500 tests passed with the change applied (run it; a change that fails any test is useless - pick another), and
  (c) is realistic: something a maintainer could plausibly introduce in a refactoring, optimisation, clean-up or well-meant bug fix (an off-by-one, a dropped seek/flush/reset, a cache keyed too coarsely, a check moved or weakened, state hoisted to a shared place, a special case handled on one code path but not its twin, ...), not sabotage that ordinary use would expose at once.
Prefer changes that need something SPECIFIC to manifest: an unusual but legal input or definition, a particular combination of neighbouring fields, a multi-step sequence of operations, a fault or truncation at a particular point, a particular thread interleaving, or two cooperating sites that each look fine alone. The three changes should use three different mechanisms / code locations.

For each change N = 1..3 create the directory {od}/mutN/ containing:
  - patch.diff : output of `git diff` for that change alone (it must apply with `git apply` to a clean checkout of HEAD),
  - demo.py    : a small standalone program, run as `/venv/bin/python demo.py <repo-root>`; it must do `sys.path.insert(0, sys.argv[1])` before importing dissect.cstruct, exit 0 (printing OK) when the property holds - i.e. on the clean HEAD - and exit 1, printing what went wrong, when the change is applied. Keep it deterministic (for thread interleavings, force the interleaving deterministically, e.g. with sys.settrace or by wrapping a method, rather than hoping for a race),
  - notes.md   : which property it breaks, what exactly is needed for the violation to manifest, and what you ran with the observed results (suite result with the patch, demo on clean HEAD, demo with the patch).
Verify all of this yourself: demo exits 0 on clean HEAD, exits 1 with the patch applied, and the suite passes with the patch applied. Between changes and at the very end restore the worktree with `git -C {wt} checkout -- .` (leave it clean; do not commit anything).

If, while reading the code, you notice behaviour of the UNCHANGED library that itself seems to violate the property, describe it briefly at the end of your answer (input and observed result) - that is useful too.

Your final answer should be a short list: for each mutN one line saying what was changed and what it needs to manifest, plus anything that did not work out.
"""
        open(f"{od}/TASK.md", "w").write(text)
        print(pid, wt, len(taken(pid)), "taken")


if __name__ == "__main__":
    main()
