#!/bin/bash
# tools/run_all.sh [tier] : run every registered check once (fresh process each), print one line per check
tier=${1:-quick}
cd /verif
for id in $(python3 -c "import json;print(' '.join(c['property_id'] for c in json.load(open('MANIFEST.json'))['checks']))"); do
  s=$(date +%s); out=$(./check $id --tier $tier 2>&1); rc=$?; e=$(date +%s)
  echo "$id rc=$rc wall=$((e-s))s $(echo "$out" | grep -c '^VIOLATION') violations $(echo "$out" | grep -c '^KNOWN-FINDING') known | $(echo "$out" | grep '^\[' | tail -1 | cut -c1-160)"
  if [ $rc -ne 0 ]; then echo "$out" | grep -E "VIOLATION|CHECKER|detail=" | head -6 | cut -c1-400; fi
done
