#!/usr/bin/env python3
"""tools/final_pass.py [--benign] [ids...] - regression pass over everything stored under /verif/seeded with the checks as they are NOW:
every seeded change x the check of its own property (plus the checks that caught it before), every applicable benign refactor x its area's checks.
Updates the meta.json files; prints one line per item and a summary of anything that changed for the worse."""
import json
import os
import shutil
import subprocess
import sys
import time

VERIF = os.path.dirname(os.path.dirname(os.path.abspath(__file__)))
SD = os.path.join(VERIF, "seeded")


def sh(cmd, cwd=None, env=None, timeout=3600):
    p = subprocess.run(cmd, shell=True, cwd=cwd, capture_output=True, text=True, env=env, timeout=timeout)
    return p.returncode, p.stdout + p.stderr


def main():
    only = [a for a in sys.argv[1:] if not a.startswith("--")]
    worse = []
    for d in sorted(os.listdir(SD)):
        mp = os.path.join(SD, d, "meta.json")
        if d == "benign" or d.startswith("revert-") or not os.path.exists(mp) or (only and d not in only):
            continue
        m = json.load(open(mp))
        if not m.get("confirmed") or m.get("judged", "").startswith(("outside", "equivalent")):
            continue
        p = m["breaks_property"]
        before = sorted(c for c, r in m.get("checks", {}).items() if r["exit"] == 1)
        todo = [p] if p in before or not before else [p] + before[:1]
        wt = f"/tmp/wt/final-{d}"
        ev = wt + ".ev"
        os.makedirs("/tmp/wt", exist_ok=True)
        sh(f"git -C /repo worktree remove --force {wt}")
        sh(f"git -C /repo worktree add -q --detach {wt} HEAD")
        try:
            rc, out = sh(f"git -C {wt} apply {SD}/{d}/patch.diff")
            if rc != 0:
                print(d, "PATCH-NO-LONGER-APPLIES", flush=True)
                m["final_pass"] = {"repo_head": sh("git -C /repo rev-parse --short HEAD")[1].strip(), "result": "patch no longer applies to HEAD (later repairs touch the same lines)"}
                json.dump(m, open(mp, "w"), indent=1)
                continue
            env = dict(os.environ, VERIF_REPO=wt, VERIF_EVIDENCE_DIR=ev, VERIF_REPLAY_DIR=ev, VERIF_OUT_DIR=ev, VERIF_NO_CONFIRM="1")
            os.makedirs(ev, exist_ok=True)
            res = {}
            for c in todo:
                t0 = time.time()
                rc, out = sh(f"{VERIF}/check {c} --tier quick", cwd=VERIF, env=env)
                kinds = sorted({ln.split("kind=")[1].split()[0] for ln in out.splitlines() if "kind=" in ln})
                res[c] = {"exit": rc, "kinds": kinds[:6], "wall_s": round(time.time() - t0, 1)}
            m["final_pass"] = {"repo_head": sh("git -C /repo rev-parse --short HEAD")[1].strip(), "checks": res}
            for c, r in res.items():
                m.setdefault("checks", {})[c] = dict(m["checks"].get(c, {}), exit=r["exit"], kinds=r["kinds"], wall_s=r["wall_s"])
            m["detected_by"] = sorted(c for c, r in m["checks"].items() if r["exit"] == 1)
            json.dump(m, open(mp, "w"), indent=1)
            now = sorted(c for c, r in res.items() if r["exit"] == 1)
            flag = "" if p in now or p not in before else "  <-- OWN CHECK NO LONGER CATCHES IT"
            if flag or any(r["exit"] not in (0, 1) for r in res.values()):
                worse.append(d)
            print(d, {c: r["exit"] for c, r in res.items()}, flag, flush=True)
        finally:
            sh(f"git -C /repo worktree remove --force {wt}")
            shutil.rmtree(ev, ignore_errors=True)
    print("WORSE:", worse, flush=True)


if __name__ == "__main__":
    main()
