#!/usr/bin/env python3
"""tools/revert_pass.py [hash ...] - "natural mutants": revert each 'fix:' commit of /repo in a scratch worktree and run the check of the
property it was recorded under (known_findings.json 'fixed' entries).  Each repaired defect must be re-established by the real check.
Results go to /verif/seeded/revert-<hash>/ (patch.diff = the reverse patch against HEAD, meta.json)."""
import json
import os
import re
import shutil
import subprocess
import sys
import time

VERIF = os.path.dirname(os.path.dirname(os.path.abspath(__file__)))
EXTRA = {"a5b8de8": ["C03"], "1ca83d3": ["C01", "C02", "C06"], "2f2aa3d": ["C02", "C06", "C04"], "b3cde75": ["C01", "C06", "C18"], "a13e0ce": ["C08"], "64c3e35": ["C14", "C17"],
         "55e6e16": ["C15", "C10"], "90809bb": ["C11", "C02"], "8a4355f": ["C13", "C12"], "182a61c": ["C07", "C13"], "2b665a1": ["C20", "C13"], "4e7ae19": ["C16"],
         "fa6706a": [], "cb6fa11": ["C11"], "4edbc7f": ["C17"], "4fdf95b": ["C01", "C06"], "bd52845": ["C07", "C10"], "231f8cb": ["C12"], "26a04a4": ["C11", "C02"]}


def sh(cmd, cwd=None, env=None, timeout=3600):
    p = subprocess.run(cmd, shell=True, cwd=cwd, capture_output=True, text=True, env=env, timeout=timeout)
    return p.returncode, p.stdout + p.stderr


def main():
    kf = json.load(open(os.path.join(VERIF, "known_findings.json")))
    fixed = {}
    for line in kf["fixed"]:
        m = re.match(r"fixed: property=(C\d+) ([0-9a-f]{7}) (.*)", line)
        if m:
            fixed.setdefault(m.group(2), {"props": [], "what": m.group(3)})["props"].append(m.group(1))
    want = sys.argv[1:] or list(fixed)
    for h in want:
        info = fixed[h]
        props = list(dict.fromkeys(info["props"] + EXTRA.get(h, [])))
        wt = f"/tmp/wt/rev-{h}"
        ev = wt + ".ev"
        os.makedirs("/tmp/wt", exist_ok=True)
        sh(f"git -C /repo worktree remove --force {wt}")
        rc, out = sh(f"git -C /repo worktree add -q --detach {wt} HEAD")
        meta = {"seed": f"revert-{h}", "kind": "natural mutant: the repair commit reverted on top of HEAD", "commit": h, "breaks_property": info["props"][0], "defect": info["what"], "ran": []}
        try:
            rc, out = sh(f"git revert --no-commit {h}", cwd=wt)
            if rc != 0:
                meta["revert"] = "conflict (later repairs touch the same lines) - not evaluated"
                print(h, "REVERT-CONFLICT")
                sh("git revert --abort", cwd=wt)
                dst = os.path.join(VERIF, "seeded", f"revert-{h}")
                os.makedirs(dst, exist_ok=True)
                json.dump(meta, open(os.path.join(dst, "meta.json"), "w"), indent=1)
                continue
            rc, patch = sh("git diff HEAD", cwd=wt)
            rc, out = sh("/venv/bin/python -m pytest -q -p no:cacheprovider --timeout=120 -x 2>&1 | tail -1", cwd=wt, timeout=1200)
            meta["suite_with_change"] = out.strip()
            env = dict(os.environ, VERIF_REPO=wt, VERIF_EVIDENCE_DIR=ev, VERIF_REPLAY_DIR=ev, VERIF_OUT_DIR=ev, VERIF_NO_CONFIRM="1")
            os.makedirs(ev, exist_ok=True)
            results = {}
            for c in props:
                t0 = time.time()
                rc, out = sh(f"{VERIF}/check {c} --tier quick", cwd=VERIF, env=env)
                kinds = sorted({ln.split("kind=")[1].split()[0] for ln in out.splitlines() if "kind=" in ln})
                results[c] = {"exit": rc, "kinds": kinds[:6], "wall_s": round(time.time() - t0, 1)}
                meta["ran"].append(f"VERIF_REPO=<worktree with the revert> ./check {c} --tier quick")
            meta["checks"] = results
            meta["detected_by"] = [c for c, r in results.items() if r["exit"] == 1]
            dst = os.path.join(VERIF, "seeded", f"revert-{h}")
            os.makedirs(dst, exist_ok=True)
            open(os.path.join(dst, "patch.diff"), "w").write(patch)
            json.dump(meta, open(os.path.join(dst, "meta.json"), "w"), indent=1)
            print(h, info["props"], "suite:", meta["suite_with_change"], "detected_by:", meta["detected_by"], {c: r["kinds"][:2] for c, r in results.items()})
        finally:
            sh(f"git -C /repo worktree remove --force {wt}")
            shutil.rmtree(ev, ignore_errors=True)


if __name__ == "__main__":
    main()
