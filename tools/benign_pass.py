#!/usr/bin/env python3
"""tools/benign_pass.py [name ...] - every behaviour-preserving refactor under /verif/seeded/benign/<area>-refN/patch.diff is applied to a scratch worktree
of /repo HEAD; the pinned suite and the quick checks of the properties anchored in that source area must all stay silent.  Writes meta.json next to the patch."""
import json
import os
import shutil
import subprocess
import sys
import time

VERIF = os.path.dirname(os.path.dirname(os.path.abspath(__file__)))
AREA = {
    "compiler": ["C03", "C06", "C04", "C01", "C18"],
    "expression": ["C10", "C07", "C12", "C15"],
    "parser": ["C13", "C12", "C20", "C10", "C07"],
    "structure": ["C11", "C14", "C17", "C18", "C02", "C06", "C04", "C01", "C09", "C08"],
    "types": ["C05", "C01", "C02", "C07", "C16", "C12", "C08", "C09", "C19"],
    "utils_stubgen": ["C19", "C20"],
    # second round, written against the repaired tree
    "structure2": ["C11", "C14", "C17", "C18", "C02", "C06", "C04", "C01", "C09", "C08", "C03"],
    "parser2": ["C13", "C12", "C20", "C10", "C07", "C05", "C04", "C18", "C16"],
    "stubgen2": ["C19", "C20"],
}


def sh(cmd, cwd=None, env=None, timeout=3600):
    p = subprocess.run(cmd, shell=True, cwd=cwd, capture_output=True, text=True, env=env, timeout=timeout)
    return p.returncode, p.stdout + p.stderr


def main():
    bd = os.path.join(VERIF, "seeded", "benign")
    names = sys.argv[1:] or sorted(os.listdir(bd))
    for b in names:
        area = b.rsplit("-", 1)[0]
        wt = f"/tmp/wt/benign-{b}"
        ev = wt + ".ev"
        os.makedirs("/tmp/wt", exist_ok=True)
        sh(f"git -C /repo worktree remove --force {wt}")
        rc, out = sh(f"git -C /repo worktree add -q --detach {wt} HEAD")
        meta = {"refactor": b, "repo_head": sh("git -C /repo rev-parse --short HEAD")[1].strip(), "checks": {}}
        try:
            rc, out = sh(f"git -C {wt} apply {bd}/{b}/patch.diff")
            meta["patch_applies"] = rc == 0
            if rc == 0:
                rc, out = sh("/venv/bin/python -m pytest -q -p no:cacheprovider --timeout=120 -x 2>&1 | tail -1", cwd=wt, timeout=1200)
                meta["suite_with_change"] = out.strip()
                env = dict(os.environ, VERIF_REPO=wt, VERIF_EVIDENCE_DIR=ev, VERIF_REPLAY_DIR=ev, VERIF_OUT_DIR=ev, VERIF_NO_CONFIRM="1")
                os.makedirs(ev, exist_ok=True)
                for c in AREA[area]:
                    t0 = time.time()
                    rc, out = sh(f"{VERIF}/check {c} --tier quick", cwd=VERIF, env=env)
                    kinds = sorted({ln.split("kind=")[1].split()[0] for ln in out.splitlines() if "kind=" in ln})
                    meta["checks"][c] = {"exit": rc, "kinds": kinds[:6], "wall_s": round(time.time() - t0, 1)}
            json.dump(meta, open(f"{bd}/{b}/meta.json", "w"), indent=1)
            print(b, meta.get("suite_with_change"), {c: r["exit"] for c, r in meta["checks"].items()}, [r["kinds"] for r in meta["checks"].values() if r["exit"]], flush=True)
        finally:
            sh(f"git -C /repo worktree remove --force {wt}")
            shutil.rmtree(ev, ignore_errors=True)


if __name__ == "__main__":
    main()
