#!/usr/bin/env python3
"""Regenerates /verif/MANIFEST.json from the table below (run after adding/removing a check)."""
import json
import os

HERE = os.path.dirname(os.path.dirname(os.path.abspath(__file__)))

BASE_NOTE = (
    "Trusted base: CPython 3.12.1 of /venv (struct, int.from_bytes/to_bytes, UTF-16 codecs, ctypes, ast) as independent "
    "oracles; the reference model in mcx/refmodel (no dependency on dissect.cstruct); the enumerated alphabets are assumed "
    "representative of the code's behaviour classes (DESIGN 4, 13). Exhaustive within the stated bounds only."
)

# id -> (category, technique, level text, design ref)
CHECKS = {
    "C03": (
        "model_checking",
        "bounded-exhaustive enumeration of definitions x configurations x inputs x cut points; differential of the two readers on the real code",
        "Every definition of <=2 fields over the wide atom alphabet and <=3 over the core alphabet (thorough: 3/4), [EOF] tails and a "
        "long-run family, under both endiannesses, both layouts and (for pointers) several pointer widths, is loaded through the real "
        "parser with compiled=True and compiled=False; on every deviation-bounded model-encoded input, raw pattern and every prefix "
        "of the baseline inputs the two readers are compared (values, consumed bytes, recorded sizes, layout, fallback instead of "
        "failure). Pure differential on the implementation - no model/implementation gap.",
        "DESIGN.md 6 (C03)",
    ),
}

CHECKS["C01"] = (
    "model_checking",
    "bounded-exhaustive enumeration of definitions x configurations x values (parsed and directly constructed) with round-trip oracle on the real code; exhaustive overflow table",
    "For every definition in the bounded spaces (as C03), both endiannesses, both layouts and both readers, every value obtained by parsing "
    "a deviation-bounded model-encoded input or raw pattern, and every value constructed directly from the model's plain values, is dumped "
    "(4 call forms) and parsed back: equal by the library's == and by normalised comparison, consuming exactly len(dumps(v)). The overflow "
    "table (14 integer types, enums/flags over 6 bases, 4 pointer widths x 6 contexts x 5 out-of-range values x 2 endiannesses) must raise.",
    "DESIGN.md 6 (C01)",
)
CHECKS["C02"] = (
    "model_checking",
    "bounded-exhaustive enumeration of definitions x configurations x inputs; reference model run in lock-step (value, consumed bytes, data-bit mask) with the real reader and writer",
    "Same spaces as C01/C03. Inputs are model encodings with junk in all padding and unassigned bit-field bits; the real parser's value and "
    "consumed length must equal the model's, dumps() must have exactly the consumed length, equal the input at every bit of the model's "
    "data mask and be zero at every other bit.",
    "DESIGN.md 6 (C02)",
)

CHECKS["C08"] = (
    "fault_enumeration",
    "exhaustive fault enumeration on the real readers: every cut point of every accepted input (bytes and stream) and every read() call x {short-by-one, empty, OSError} (thorough: all pairs), oracle from the reference model's data-bit mask",
    "For every definition of <=2 fields over the wide alphabet (thorough: + <=3 over the core alphabet, long-run family), [EOF] tails and every "
    "stand-alone scalar/array type, both endiannesses/layouts/readers and deviation-bounded accepted inputs: all prefixes and all single "
    "read-call faults are injected. A cut at or before the last data-carrying byte must raise EOFError; a short read withholding a data byte "
    "must raise; OSError must propagate; anything returned must equal the fault-free value; afterwards the same types parse the full "
    "input exactly as before (no residue). Hangs are violations (watchdog).",
    "DESIGN.md 5.3, 6 (C08)",
)
CHECKS["C09"] = (
    "model_checking",
    "bounded-exhaustive enumeration of definitions x inputs x start offsets x junk fillings x stream kinds x call forms x read histories against the reference model",
    "Every definition of <=2 fields over the wide alphabet (+[EOF] tails; thorough adds depth 3 and the long-run family) is parsed at 8 start "
    "offsets (aligned ones in aligned mode) with two different junk fillings before and after the payload, through BytesIO, a minimal "
    "read/seek/tell stream and BufferedReader, through 11 call forms over bytes/bytearray/memoryview/streams, and in histories of up to 3 "
    "consecutive reads on one stream: value = model decode of the payload alone, tell() = p + size.",
    "DESIGN.md 6 (C09)",
)

CHECKS["C04"] = (
    "model_checking",
    "bounded-exhaustive enumeration of static definitions x layout mode x pointer width; reference layout model cross-checked against ctypes on every definition; real parser/reader/writer compared with it",
    "All definitions of <=2 members over 42 fixed-size layout atoms and <=3 over the 12 (size, alignment) classes (thorough 3/5), packed and "
    "aligned, four pointer widths: len(T), alignment and every field offset equal the reference model, which is itself compared with "
    "ctypes.Structure/Union (x86-64 C ABI) for every definition expressible in C scalars; sizeof(S) inside array sizes and #define, bytes "
    "consumed by parsing, len(T().dumps()) and len(T(data).dumps()) all agree, and the values are read where the layout says.",
    "DESIGN.md 6 (C04)",
)
CHECKS["C06"] = (
    "model_checking",
    "bounded-exhaustive enumeration of bit-field width sequences x storage types x neighbour contexts x unit contents x written values against the reference bit-slice model",
    "All width sequences of length <=3 (thorough 4) for 15 storage types (incl. signed, 24/48-bit, char, enum, flag) and mixed-storage "
    "sequences, in 5 (thorough 8) neighbour contexts, both endiannesses, layouts and readers: every 8-bit unit content (all 256) and "
    "single-/two-bit/all-ones patterns of wider units must parse to the model's slices (non-overlap, order, range), straddling "
    "definitions must be rejected, and every product of per-field values {0,1,max,1010..} must be written as the model packs it and "
    "parse back.",
    "DESIGN.md 6 (C06)",
)

CHECKS["C07"] = (
    "model_checking",
    "bounded-exhaustive enumeration of element types x length forms x positions x inputs against the reference model's flat decoding; exhaustive write-refusal table",
    "22 element types x 12 length forms (fixed, expressions over an earlier field and #defines incl. a #define shadowed by a field, "
    "null-terminated, to-end-of-stream) x 2 positions plus 2-D forms, both endiannesses/layouts/readers; inputs with <=2 deviating fields "
    "(counts 0..3, array lengths 0..3, terminator absent, raw patterns): element count, contents, C order, consumed bytes and the "
    "re-appended terminator equal the model; same-named but different element types in one cstruct; dumping a fixed-size non-character "
    "array with a wrong number of elements (14 element types x sizes 0..3 x 3 contexts) must be refused.",
    "DESIGN.md 6 (C07)",
)

CHECKS["C10"] = (
    "model_checking",
    "exhaustive enumeration of all well-formed token sequences of the expression grammar up to bounded length (plus BFS over evaluation histories) against a precedence-climbing reference evaluator",
    "Every well-formed expression of <=6 tokens over 6 atoms, <=7 over 3 and 5 atoms, <=6 over atoms incl. the identifiers u/x, and <=3 tokens "
    "over 39 literal/identifier/sizeof forms (thorough: 7/8/9 tokens), with three spacings, is evaluated twice by the real evaluator and "
    "compared with the reference (C precedence, left associativity, unbounded ints; context before constants). BFS over all histories of "
    "<=3 (4) evaluations x 4 contexts per expression object: each result equals a fresh object's. Expressions through #define chains, enum "
    "values and array sizes.",
    "DESIGN.md 6 (C10)",
)

CHECKS["C11"] = (
    "model_checking",
    "explicit-state breadth-first search over member-assignment histories on real union objects (state = byte buffer of the reference union model), invariant checked in every state",
    "Unions of 2-3 members (thorough 4) out of 22 member types (ints, arrays, char arrays, enum, pointer, nested / twice-nested / anonymous "
    "structs with and without padding, nested unions), both endiannesses and layouts, both declaration orders: from parsed and default initial "
    "states all sequences of assignments (direct, through nested structs two levels deep, through anonymous folding) up to depth 2 (3) are "
    "executed on the real object; after each transition every member must equal decode(member, buffer), dumps must equal the buffer at every "
    "bit that is data in some member, and a fresh object parsed from the buffer must equal the reached one. Also: size/consumption at stream "
    "offsets 1,3,8, unions embedded in structs/arrays under both readers, API-built unions with members at non-zero offsets.",
    "DESIGN.md 5.1, 6 (C11)",
)

CHECKS["C12"] = (
    "model_checking",
    "bounded-exhaustive enumeration of enum/flag declarations x underlying types x text styles x all (8-bit) or boundary underlying values x uses (scalar, array, null-terminated, bit-field, struct field) against the C numbering rule and value-preservation oracle",
    "All declarations of 1-3 members (thorough 4) over 13 value specs (auto, literals, negative, expressions over earlier members, duplicates) x "
    "8 underlying types x enum/flag x 3 text styles (incl. a line break inside a member) must be numbered like C (also by the legacy parser); "
    "every one of the 256 underlying values of 8-bit bases and boundary/member/combination values of wider ones is parsed as scalar (bytes and "
    "stream), in [2], [] arrays, bit-fields and struct fields under both endiannesses and both readers: value preserved, written back "
    "unchanged, ==/hash laws (integer, same class, aliases, other enum/flag, same name in another cstruct).",
    "DESIGN.md 6 (C12)",
)

CHECKS["C14"] = (
    "model_checking",
    "explicit-state exploration of all operation histories up to a depth bound over two cstruct objects and three live instances, replayed on fresh real objects, against an independent-worlds reference model",
    "All applicable sequences of <=3 operations from an alphabet of 35 (thorough: <=4; quick adds depth 4 over a 12-operation sub-alphabet): "
    "construct default / with kwargs, parse, failing parse, nine kinds of mutation (scalar, array element, nested struct, array-of-struct "
    "element, 2-D element, union member, dynamic array, anonymous member and its array) on either of two instances, load more definitions, "
    "flip endianness, add_type with different targets on the two objects, load a user of the alias - under both readers. After every "
    "operation: every live instance equals its own model value and dumps accordingly, fresh defaults are pristine, parsing equals the "
    "model's pure decode, each cstruct object has exactly what it was given.",
    "DESIGN.md 5.1, 6 (C14)",
)

CHECKS["C17"] = (
    "model_checking",
    "bounded-exhaustive enumeration of structure definitions x all instances over a 3-value alphabet per field x all ordered pairs x all constructor forms, plus exhaustive short histories of hash/assign operations, on the real classes",
    "Every structure of 0-3 fields over 10 field kinds and 4 fields over 6 kinds (thorough: 4/5), packed and aligned, both readers: all instances "
    "over {zero, nz1, nz2}^n and all ordered pairs (== iff same class and field-wise equal, equal hashes, bool = any field truthy, never equal to "
    "another class), every keyword subset and positional prefix equals assignment on a default, defaults are zero values, dumps of every "
    "instance equals the reference encoding bit for bit (assignment is local), all histories of <=3 (4) operations {hash, assign, assign "
    "through nested struct} agree with a fresh equal instance, all 24 class-definition orders, field-count sweep n=0..20 (32).",
    "DESIGN.md 6 (C17)",
)

CHECKS["C18"] = (
    "model_checking",
    "explicit-state exploration of all add_field/commit histories (every split of every bounded field sequence into commit steps) on real classes, differential against the one-shot definition at every committed state",
    "For every field sequence (leading uint8 + <=2 atoms over the 26 core atoms, + 3 atoms over 12 representatives; thorough 3/4) and each of the "
    "2^(m-1) ways to split it into single add_field calls and start_update batches, on a pre-registered empty structure (compiled when "
    "requested), both layouts: after every commit the class equals the structure declared in one piece with the same fields in layout, "
    "compiled flag, parse results incl. recorded sizes and consumed bytes (stream offsets 0 and 1), dumps, defaults, ==/hash/bool, __init__ "
    "signature and keyword construction. Self-referential structures equal their void* twin (3 pointer widths, both readers/layouts) and "
    "dereference to themselves; repeated padding names work in every split.",
    "DESIGN.md 5.1, 6 (C18)",
)

CHECKS["C13"] = (
    "model_checking",
    "exhaustive enumeration of token boundaries x insertions, of dependency-respecting permutations, and breadth-first search over typedef/add_type histories against a dictionary model",
    "29 corpus texts covering the definition grammar: at EVERY token boundary found by an independent lexer (bracket interiors, #define lines, "
    "config flags and existing comments are atomic) each of 10 insertions (white space and comment forms, incl. comments containing definition "
    "syntax or the other comment marker) - and all pairs for short texts - must leave names, layouts, members, constants and the parse of a "
    "fixed input unchanged; so must every dependency-respecting permutation of the top-level definitions and definition-by-definition loading. "
    "All built-in synonyms and typedef groups resolve to the very same type object. BFS (depth 3/4 over 11 operations) over typedef / add_type "
    "histories: accepted / ValueError / ResolveError exactly as a dictionary model predicts, never a loop or a different binding.",
    "DESIGN.md 6 (C13)",
)

CHECKS["C15"] = (
    "model_checking",
    "stateless preemption-bounded exploration of ALL thread schedules of small harnesses on the real code under a controlled scheduler (sys.settrace baton at every library source line)",
    "34 harnesses (6 definitions using expression-sized arrays with unary minus, bit-fields, a union with a nested struct, enums/flags with "
    "unknown values, pointers with dereference, nested dynamic structures with wchar; both readers; thread bodies parse/parse, parse/dumps, "
    "dumps/dumps, parse/deref on shared type objects and independent streams): every schedule with <=1 preemption of 2 threads (and of 3 "
    "threads for parse/parse) is executed - thorough: <=2 preemptions for parse/parse, 3 threads everywhere, and <=1 preemption at byte-code "
    "granularity in expression.py/bitbuffer.py/types/base.py - and every thread's result must equal its sequential result. Violating "
    "schedules are replayed twice (determinism) before being reported.",
    "DESIGN.md 5.2, 6 (C15)",
)

CHECKS["C05"] = (
    "model_checking",
    "exhaustive enumeration of byte patterns (all for 1-/2-byte types, float16, char, wchar; boundary and walking-bit alphabets for wider types; dense LEB128 ranges) against int.from_bytes/struct/UTF-16/textbook LEB128, plus exhaustive enumeration of endianness-switch histories",
    "Every built-in scalar name and every one of the ~90 synonyms (each must resolve to the very type of its group) under the byte orders <, > and !: "
    "all 256/65536 patterns of the 1- and 2-byte integers (bulk and individually), boundary/walking-one/walking-zero patterns of the 3-16 byte "
    "integers, all 65536 float16 patterns and boundary/walking-bit patterns of float/double, all 256 chars, all 65536 wchar code units (lone "
    "surrogates must not decode silently) and surrogate pairs, LEB128 on [-2^14-2, 2^14+2] and around +-2^(7j), +-2^(7j-1): decode and encode are "
    "exact inverses of the standard encodings. All histories of 3 (thorough 4) operations over {set endianness, parse/dump 7 scalar families, "
    "parse/dump a compiled and an interpreted structure} from each initial byte order follow the endianness current at each call.",
    "DESIGN.md 6 (C05)",
)

CHECKS["C16"] = (
    "model_checking",
    "bounded-exhaustive enumeration of pointer widths x endianness x readers x target types x positions x EVERY address of the buffer x contents, with a fixed operation sequence (dereference twice, attribute access, arithmetic, dump, read on) against the reference decode at the absolute offset",
    "11 target types (scalars, 24-bit, static and dynamic structs, C strings, wchar, enum, pointer-to-pointer, void, 64-bit) in 6 positions (only "
    "field, between fields, array of pointers, nested struct, several differently typed pointers in one block, member of a union) x pointer widths "
    "8/16/32/64 x both endiannesses x both readers x 2 buffer contents x every address 0..len+1: field width, integer value, dereference = model "
    "decode at that absolute offset, NullPointerDereference for null/stream-less pointers, error instead of fabricated data past the end, "
    "stream position untouched by every (also failing) dereference, repeated access stable, p+1/p-1/p+2 keep type and stream, dumps writes "
    "the address back; pointer-width switch histories (12 ordered pairs).",
    "DESIGN.md 6 (C16)",
)

CHECKS["C19"] = (
    "model_checking",
    "exhaustive enumeration of data lengths x contents x offsets x prefixes x all small palettes for hexdump, of definitions x layouts x readers x colour x call forms for dumpstruct, and of widths x boundary integers x endianness spellings for pack/unpack/swap, each against an independent reference",
    "hexdump: every length 0..66 x 3 contents x 4 offsets x 2 prefixes, string and generator output, equals an independent renderer and the "
    "bytes recovered from the dump equal the input; all palettes of <=3 (4) entries over 9 lengths x 2 colours change nothing but colour codes. "
    "dumpstruct: 8 hand-written definitions and every definition of <=2 fields over the wide alphabet, packed/aligned, both readers, colour "
    "on/off, instance and (type, data) forms: hex part = dump of exactly the value's bytes, every field listed once in order with its value. "
    "pack/unpack/pN/uN/swap: widths 8..128 x boundary integers (all 8/16-bit ones) x 6 endianness spellings agree with int.to_bytes/from_bytes "
    "and are mutual inverses.",
    "DESIGN.md 6 (C19)",
)

CHECKS["C20"] = (
    "model_checking",
    "exhaustive enumeration of definition sets (all singles, ordered pairs and ordered triples over a core subset of 28 definition items) with an AST-level conformance checker of the generated stub against the loaded cstruct object",
    "For every set the stub must be valid Python, declare every user type, alias and constant exactly once under its name and nothing the "
    "object does not provide, give constants their values, enums their members and bases, structures their fields in order with hints that "
    "denote the field's actual type (identity for named types, same shape for arrays and pointers, inline classes only for non-global "
    "nested types), and matching __init__ parameters. Items cover structs, unions, nested named / inline named / anonymous members and "
    "arrays or pointers of them, bit-fields, self pointers, enums, flags with zero/composite/mask members, alias members, anonymous enums, "
    "typedefs of scalars, structs (several names), arrays, pointers and enums, constants of every literal kind, all built-in scalars, and "
    "API-added aliases.",
    "DESIGN.md 6 (C20)",
)

# Extensions made after the seeded-change waves (DESIGN II.4/II.5); appended to the level text.
ADDENDA = {
    "C01": " Also: endianness switched on the loaded object and back (history), and an overflow table for bit-fields (6 storage types x 3 width splits x every position x 5 values that do not fit).",
    "C02": " Also: endianness switched on the loaded object and back (history); bit pairs split by a zero-size member; blocks without struct-packed members.",
    "C03": " Also: bit pairs split by a zero-size member, blocks without struct-packed members incl. zero-length arrays, parse at stream offset 16.",
    "C04": " Also: inline-declared structs/unions, unions whose largest member is not a multiple of their alignment, enums/flags over 24/48-bit integers.",
    "C05": " Also: the forms T, T[k], T[] and structure members x[n] / x[EOF] of every scalar codec (both readers) and UTF-16 text incl. surrogate pairs decode element-wise like the scalar.",
    "C06": " Also: dynamic member lengths 0..3 in the dynamic contexts, void / zero-length array between bit-fields, endianness switched after loading and back.",
    "C07": " Also: constant size expressions that are zero or negative, counts taken from members of an anonymous struct, and [EOF] inputs with a partial trailing element (only whole, genuine elements may be returned).",
    "C08": " Also: lazily parsed pointer targets (6 target types x 3 pointer widths x every cut inside the target): EOFError, stream position and following records unchanged.",
    "C09": " Also: recorded _sizes independent of the offset, 11 top-level unions x 14 input kinds / call forms, terminated arrays of every length 0..69 and around 2^7..2^16.",
    "C11": " Also: structs inside a union nested in a union, two assignments through one held nested reference, two anonymous structs, anonymous inside anonymous, a non-representable float.",
    "C12": " Also: every array form yields the scalar parse's object (==, hash, name), several declarations with identical expression texts in one load, enum bit-fields behind a dynamic member of an aligned struct.",
    "C13": " Also: array/pointer alias re-declarations, unknown references in 15 declarator forms (resolve error, no binding, proper definition loads afterwards), load-keyword histories.",
    "C14": " Also: zero-length array member, all-None / one-positional construction, a size expression that fails at run time, the type description (field order) invariant.",
    "C15": " Also: a harness resolving two different type names (sizeof / alias) at parse time, and three read-only harnesses (expression-sized inner dimension, byte-sliced integers, terminated wide strings with surrogate pairs; bound 1 in both tiers).",
    "C16": " Also: handles from repeated dereference are the same structure; zero-run stream content.",
    "C17": " Also: union / union-holding-struct / array-of-struct / 2-D / char-bit-field kinds, default = parse of zero bytes, constructed = parse of own dump, in-place assignment below field level on default and partially constructed instances.",
    "C18": " Also: classes created with their first field, one batch interrupted by an exception per history, anonymous members, default-instance independence and the T(bytes) call form in the observation.",
    "C19": " Also: the class+data dumpstruct form on inputs that do not re-serialise to themselves.",
    "C20": " Also: definition sets loaded through the legacy parser, generate_file_stub on modules with one or two cstruct objects, anonymous flags, memberless enums, inline structs named like a global type, multi-word alias targets.",
}

NOT_APPLICABLE = {}


def main():
    props = [json.loads(l)["id"] for l in open(os.path.join(HERE, "properties.jsonl"))]
    checks = []
    for pid in props:
        if pid not in CHECKS:
            continue
        cat, tech, text, ref = CHECKS[pid]
        checks.append(
            {
                "property_id": pid,
                "quick_cmd": f"./check {pid} --tier quick",
                "thorough_cmd": f"./check {pid} --tier thorough",
                "evidence_file": f"/verif/evidence/{pid}.json",
                "replay_cmd_template": f"./check {pid} --replay {{path}}",
                "engine": "mcx",
                "level_claimed": {"category": cat, "text": text + ADDENDA.get(pid, ""), "design_ref": ref + (", II.5" if pid in ADDENDA else "")},
                "level_note": BASE_NOTE,
                "technique": tech,
            }
        )
    na = []
    for pid in props:
        if pid not in CHECKS:
            na.append({"property_id": pid, "reason": NOT_APPLICABLE.get(pid, "check not built yet in this session (planned: bounded-exhaustive exploration, see DESIGN.md 6)")})
    doc = {
        "version": 1,
        "setup_cmd": "/venv/bin/python -m compileall -q mcx >/dev/null 2>&1; /venv/bin/python -m mcx.selftest",
        "hooks": {
            "guard": "DISSECT_CSTRUCT_VERIF",
            "enable": "no hooks are needed: checks import the working tree of /repo directly (sys.path[0]=/repo) and drive it black-box; scheduling uses sys.settrace, faults use a stream wrapper",
            "baseline_off_cmd": "cd /repo && /venv/bin/python -m pytest -ra -q -p no:cacheprovider --timeout=900",
            "source_commits": [],
            "add_only": True,
        },
        "engines": [
            {
                "name": "mcx",
                "path": "/verif/mcx",
                "serves_properties": [c["property_id"] for c in checks],
                "kind_free_text": "hand-written explicit-state / bounded-exhaustive explorer for Python: definition x configuration x input enumerators, BFS over operation histories on real objects, fault and cut-point enumeration, preemption-bounded thread-schedule exploration; reference model run in lock-step with the implementation",
            }
        ],
        "checks": checks,
        "not_applicable": na,
        "notes": "All checks run the real library from /repo's working tree (VERIF_REPO overrides). VERIF_SEED rotates shard order and which explored cases are copied into evidence samples; the explored set is the same for every seed. Known findings: /verif/known_findings.json.",
    }
    with open(os.path.join(HERE, "MANIFEST.json"), "w") as fh:
        json.dump(doc, fh, indent=1)
    print("wrote MANIFEST.json with", len(checks), "checks;", len(na), "not_applicable")


if __name__ == "__main__":
    main()
