#!/bin/bash
# tools/port_seed.sh <seed-id> : try to carry a stored patch that no longer applies over to /repo HEAD with a 3-way merge.
# Clean merge -> verify (suite passes with it, demo fails with it), keep the original as patch.orig.diff.  Conflict -> leave the worktree for manual work.
sid=$1; d=/verif/seeded/$sid; wt=/tmp/wt/port-$sid
git -C /repo worktree remove --force $wt >/dev/null 2>&1
git -C /repo worktree add -q --detach $wt HEAD
src=$d/patch.diff; [ -f $d/patch.orig.diff ] && src=$d/patch.orig.diff
cd $wt
if git apply $src 2>/dev/null; then echo "$sid applies as is"; cd /; git -C /repo worktree remove --force $wt; exit 0; fi
out=$(git apply -3 $src 2>&1)
if git diff --name-only --diff-filter=U | grep -q .; then echo "$sid CONFLICT in $(git diff --name-only --diff-filter=U | tr '\n' ' ') (worktree kept: $wt)"; exit 2; fi
git diff HEAD > /tmp/$sid.ported.diff
suite=$(/venv/bin/python -m pytest -q -p no:cacheprovider --timeout=120 -x 2>&1 | tail -1)
/venv/bin/python $d/demo.py $wt >/dev/null 2>&1; demo=$?
echo "$sid merged cleanly; suite: $suite; demo exit with patch: $demo"
if echo "$suite" | grep -q "500 passed" && [ $demo -ne 0 ]; then
  [ -f $d/patch.orig.diff ] || cp $d/patch.diff $d/patch.orig.diff
  cp /tmp/$sid.ported.diff $d/patch.diff; echo "  stored ported patch"
fi
cd /; git -C /repo worktree remove --force $wt
