#!/bin/bash
# wave 4: every seeded change of the fourth round x its own check + one related check
declare -A REL=( [C01]="C01 C02" [C02]="C02 C06" [C03]="C03 C06" [C04]="C04 C03" [C05]="C05 C07" [C06]="C06 C02" [C07]="C07 C10" [C08]="C08 C07" [C09]="C09 C18" [C10]="C10 C07" [C11]="C11 C01" [C12]="C12 C13" [C13]="C13 C12" [C14]="C14 C10" [C15]="C15" [C16]="C16 C08" [C17]="C17 C14" [C18]="C18 C03" [C19]="C19" [C20]="C20" )
for p in ${@:-C01 C02 C03 C04 C05 C06 C07 C08 C09 C10 C11 C12 C13 C14 C15 C16 C17 C18 C19 C20}; do
  for m in 1 2 3; do
    [ -d /tmp/seed4/$p.out/mut$m ] || continue
    python3 /verif/tools/seed_eval.py /tmp/seed4/$p.out/mut$m $p-w4m$m $p ${REL[$p]} 2>&1 | cut -c1-600
  done
done
