#!/bin/bash
# tools/muttest.sh <patch.diff> [--suite] <ID>...   : run quick checks against a scratch worktree of /repo with the patch applied.
# Nothing in /repo or /verif/evidence is touched; the worktree is removed afterwards.
set -u
patch="$1"; shift
suite=0; tier=quick
while [ "${1:-}" = "--suite" ] || [ "${1:-}" = "--thorough" ]; do
  [ "$1" = "--suite" ] && suite=1; [ "$1" = "--thorough" ] && tier=thorough; shift
done
wt=/tmp/wt/m$$; mkdir -p /tmp/wt
git -C /repo worktree add -q --detach "$wt" HEAD || exit 3
trap 'git -C /repo worktree remove --force "$wt" >/dev/null 2>&1; rm -rf /tmp/wt/ev$$' EXIT
if ! git -C "$wt" apply "$patch"; then echo "PATCH DOES NOT APPLY"; exit 3; fi
if [ $suite = 1 ]; then (cd "$wt" && timeout 600 /venv/bin/python -m pytest -q -p no:cacheprovider -x --timeout=60 2>&1 | tail -2); fi
mkdir -p /tmp/wt/ev$$
for id in "$@"; do
  VERIF_REPO="$wt" VERIF_EVIDENCE_DIR=/tmp/wt/ev$$ VERIF_REPLAY_DIR=/tmp/wt/ev$$ VERIF_OUT_DIR=/tmp/wt/ev$$ VERIF_NO_CONFIRM=${VERIF_NO_CONFIRM:-1} \
    timeout 3000 /verif/check "$id" --tier $tier 2>&1 | grep -E "^\[|VIOLATION|kind=|CHECKER|KNOWN" | head -${MUT_LINES:-6}
done
