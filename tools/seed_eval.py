#!/usr/bin/env python3
"""tools/seed_eval.py <src-dir> <seed-id> <property> [check ids...]

Confirms a seeded change independently (patch applies to /repo HEAD, pinned suite passes with it, demo passes on the clean tree and
fails with the change) in a scratch worktree outside /repo and /verif, runs the given quick checks against it (VERIF_REPO), stores
everything under /verif/seeded/<seed-id>/ and removes the worktree."""
import json
import os
import shutil
import subprocess
import sys
import time

VERIF = os.path.dirname(os.path.dirname(os.path.abspath(__file__)))


def sh(cmd, cwd=None, timeout=3000, env=None):
    p = subprocess.run(cmd, shell=True, cwd=cwd, capture_output=True, text=True, timeout=timeout, env=env)
    return p.returncode, (p.stdout + p.stderr)


def main():
    src, sid, prop = sys.argv[1:4]
    checks = sys.argv[4:]
    tier = os.environ.get("SEED_TIER", "quick")
    wt = f"/tmp/wt/seed-{sid}-{os.getpid()}"
    ev = wt + ".ev"
    os.makedirs("/tmp/wt", exist_ok=True)
    rc, out = sh(f"git -C /repo worktree add -q --detach {wt} HEAD")
    assert rc == 0, out
    meta = {"seed": sid, "breaks_property": prop, "source": "independent sub-agent (given only the property text and a scratch worktree)",
            "repo_head": sh("git -C /repo rev-parse --short HEAD")[1].strip(), "ran": []}
    try:
        patch = os.path.join(src, "patch.diff")
        demo = os.path.join(src, "demo.py")
        rc, out = sh(f"/venv/bin/python {demo} {wt}", timeout=600)
        meta["demo_on_clean_tree"] = {"exit": rc, "tail": out[-300:]}
        rc, out = sh(f"git -C {wt} apply {patch}")
        meta["patch_applies"] = rc == 0
        if rc != 0:
            meta["apply_error"] = out[-500:]
            print(json.dumps(meta, indent=1))
            return 2
        rc, out = sh("/venv/bin/python -m pytest -q -p no:cacheprovider --timeout=120 -x 2>&1 | tail -3", cwd=wt, timeout=1200)
        meta["suite_with_change"] = out.strip().splitlines()[-1] if out.strip() else ""
        rc, out = sh(f"/venv/bin/python {demo} {wt}", timeout=600)
        meta["demo_with_change"] = {"exit": rc, "tail": out[-400:]}
        env = dict(os.environ, VERIF_REPO=wt, VERIF_EVIDENCE_DIR=ev, VERIF_REPLAY_DIR=ev, VERIF_OUT_DIR=ev, VERIF_NO_CONFIRM="1")
        os.makedirs(ev, exist_ok=True)
        results = {}
        for c in checks:
            t0 = time.time()
            rc, out = sh(f"{VERIF}/check {c} --tier {tier}", cwd=VERIF, env=env, timeout=3600)
            kinds = sorted({ln.split("kind=")[1].split()[0] for ln in out.splitlines() if "kind=" in ln})
            results[c] = {"exit": rc, "violation_lines": sum(1 for ln in out.splitlines() if ln.startswith("VIOLATION")), "kinds": kinds[:8],
                          "wall_s": round(time.time() - t0, 1), "summary": [ln for ln in out.splitlines() if ln.startswith("[")][-1:] }
            meta["ran"].append(f"VERIF_REPO=<worktree with patch> ./check {c} --tier {tier}")
        meta["checks"] = results
        meta["detected_by"] = [c for c, r in results.items() if r["exit"] == 1]
    finally:
        sh(f"git -C /repo worktree remove --force {wt}")
        shutil.rmtree(ev, ignore_errors=True)
    dst = os.path.join(VERIF, "seeded", sid)
    os.makedirs(dst, exist_ok=True)
    shutil.copy(patch, os.path.join(dst, "patch.diff"))
    shutil.copy(demo, os.path.join(dst, "demo.py"))
    notes = os.path.join(src, "notes.md")
    if os.path.exists(notes):
        shutil.copy(notes, os.path.join(dst, "notes.md"))
        txt = open(notes).read()
        meta["needs_to_manifest"] = "see notes.md"
    old = {}
    mp = os.path.join(dst, "meta.json")
    if os.path.exists(mp):
        old = json.load(open(mp))
        merged = old.get("checks", {})
        merged.update(meta["checks"])
        meta["checks"] = merged
        meta["detected_by"] = sorted(c for c, r in merged.items() if r["exit"] == 1)
    valid = meta["patch_applies"] and "500 passed" in meta.get("suite_with_change", "") and meta["demo_on_clean_tree"]["exit"] == 0 and meta["demo_with_change"]["exit"] != 0
    meta["confirmed"] = bool(valid)
    json.dump(meta, open(mp, "w"), indent=1)
    print(sid, "confirmed" if valid else "NOT-CONFIRMED", "suite:", meta.get("suite_with_change"), "detected_by:", meta["detected_by"],
          {c: (r["exit"], r["kinds"][:3]) for c, r in meta["checks"].items()})
    return 0


if __name__ == "__main__":
    sys.exit(main())
